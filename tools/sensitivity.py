#!/venv/bin/python
"""Sensitivity self-test (DESIGN.md section 7).

  tools/sensitivity.py list
  tools/sensitivity.py run <mutant-id|all> [--checks C02,C07] [--no-suite]

For each mutant: copy /repo to a scratch directory, apply the textual edit(s),
run the repository's own test suite on the copy (the mutant must PASS it - it
is then a change the tests miss), run ./check <ID> --tier quick with
PYCPARSER_REPO pointing at the copy and expect exit 1 + VIOLATION from the
checks listed for it; remove the copy.  Equivalent mutants (negative
controls) must leave every listed check at exit 0.
"""
import json
import os
import shutil
import subprocess
import sys
import tempfile
import time

HERE = os.path.dirname(os.path.dirname(os.path.abspath(__file__)))
sys.path.insert(0, HERE)
from tools.mutants import MUTANTS  # noqa: E402


def make_copy():
    d = tempfile.mkdtemp(prefix="pycp_mut_")
    for name in ("pycparser", "tests", "examples", "utils", "setup.py", "setup.cfg", "pyproject.toml", "README.rst"):
        src = os.path.join("/repo", name)
        if os.path.isdir(src):
            shutil.copytree(src, os.path.join(d, name), ignore=shutil.ignore_patterns("__pycache__", "*.pyc"))
        elif os.path.exists(src):
            shutil.copy(src, d)
    return d


def apply(d, edits):
    for path, old, new in edits:
        p = os.path.join(d, path)
        s = open(p).read()
        if s.count(old) < 1:
            raise SystemExit("mutant edit does not apply: %s: %r" % (path, old[:60]))
        s = s.replace(old, new, 1)
        open(p, "w").write(s)


def run_suite(d):
    env = dict(os.environ, PYTHONPATH=d, PYTHONDONTWRITEBYTECODE="1")
    p = subprocess.run(["/venv/bin/python", "-m", "pytest", "-q", "-x", "-p", "no:cacheprovider", "tests"], cwd=d, env=env, capture_output=True, text=True)
    return p.returncode == 0, p.stdout.strip().splitlines()[-1] if p.stdout.strip() else p.stderr[-200:]


def run_check(d, cid, tier="quick"):
    env = dict(os.environ, PYCPARSER_REPO=d, VERIF_EVIDENCE_DIR=os.path.join(d, "_evidence"))
    t = time.time()
    p = subprocess.run([os.path.join(HERE, "check"), cid, "--tier", tier], cwd=HERE, env=env, capture_output=True, text=True)
    viol = [l for l in p.stdout.splitlines() if l.startswith("VIOLATION")]
    first = [l for l in p.stdout.splitlines() if l.startswith("violation ")][:1]
    return p.returncode, len(viol), time.time() - t, first, p.stdout[-300:] if p.returncode == 2 else ""


def main():
    args = sys.argv[1:]
    if not args or args[0] == "list":
        for mid, m in MUTANTS.items():
            print(mid, "->", ",".join(m["checks"]), "(equivalent)" if m.get("equivalent") else "", "-", m["what"])
        return
    which = args[1]
    only = None
    if "--checks" in args:
        only = args[args.index("--checks") + 1].split(",")
    suite = "--no-suite" not in args
    ids = list(MUTANTS) if which == "all" else which.split(",")
    results = []
    for mid in ids:
        m = MUTANTS[mid]
        d = make_copy()
        try:
            apply(d, m["edits"])
            row = dict(mutant=mid, what=m["what"], equivalent=bool(m.get("equivalent")))
            if suite:
                ok, last = run_suite(d)
                row["suite_passes"] = ok
                row["suite"] = last
            for cid in only or m["checks"]:
                rc, nv, dt, first, err = run_check(d, cid)
                row[cid] = dict(exit=rc, violations=nv, wall=round(dt, 1), first=first[0][:160] if first else "", err=err)
            results.append(row)
            print(json.dumps(row))
            sys.stdout.flush()
        finally:
            shutil.rmtree(d, ignore_errors=True)
    # clean replays created by mutant runs
    return results


if __name__ == "__main__":
    main()
