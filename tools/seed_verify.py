#!/venv/bin/python
"""tools/seed_verify.py <seed-id> <property> <agent-worktree> [--checks C07,C02] [--keep]

Confirms a sub-agent's seeded change independently and records it:
  1. takes `git diff` of the agent's worktree and its demo.py;
  2. in a fresh scratch copy of /repo: the repository's test suite must pass
     with the patch applied; demo.py must exit 1 with the patch and 0 without;
  3. runs ./check <ID> --tier quick (PYCPARSER_REPO=scratch copy) for the
     property's check (and any others named) and records exit/VIOLATION;
  4. writes /verif/seeded/<seed-id>/{patch.diff,demo.py,meta.json}.
Nothing is ever applied to /repo itself.
"""
import json
import os
import shutil
import subprocess
import sys
import tempfile
import time

HERE = os.path.dirname(os.path.dirname(os.path.abspath(__file__)))


def sh(cmd, **kw):
    return subprocess.run(cmd, capture_output=True, text=True, **kw)


def make_copy():
    d = tempfile.mkdtemp(prefix="seed_")
    for name in ("pycparser", "tests", "examples", "utils", "setup.py", "setup.cfg", "pyproject.toml", "README.rst"):
        src = os.path.join("/repo", name)
        if os.path.isdir(src):
            shutil.copytree(src, os.path.join(d, name), ignore=shutil.ignore_patterns("__pycache__", "*.pyc"))
        elif os.path.exists(src):
            shutil.copy(src, d)
    sh(["git", "init", "-q"], cwd=d)
    return d


def run_demo(d, demo_src, wt):
    path = os.path.join(d, "_demo.py")
    with open(path, "w") as f:
        f.write(demo_src.replace(wt, d))
    p = sh(["/venv/bin/python", path], cwd=d, env=dict(os.environ, PYTHONPATH=d, PYTHONDONTWRITEBYTECODE="1"), timeout=600)
    return p.returncode, (p.stdout + p.stderr)[-600:]


def main():
    sid, prop, wt = sys.argv[1:4]
    checks = [prop]
    if "--checks" in sys.argv:
        checks = sys.argv[sys.argv.index("--checks") + 1].split(",")
    patch = sh(["git", "-C", wt, "diff", "--", "pycparser", "utils"]).stdout
    if not patch.strip():
        sys.exit("no diff in " + wt)
    demo_src = open(os.path.join(wt, "demo.py")).read()
    meta = dict(seed=sid, property=prop, source="sub-agent given only the property text and a scratch worktree", diffstat=sh(["git", "-C", wt, "diff", "--stat", "--", "pycparser", "utils"]).stdout.strip().splitlines()[-1:])
    d = make_copy()
    try:
        rc0, out0 = run_demo(d, demo_src, wt)
        meta["demo_without_patch"] = dict(exit=rc0, tail=out0[-200:])
        ap = subprocess.run(["git", "apply", "--whitespace=nowarn", "-"], input=patch, text=True, cwd=d, capture_output=True)
        if ap.returncode != 0:
            sys.exit("patch does not apply to the current /repo: " + ap.stderr[:300])
        t = sh(["/venv/bin/python", "-m", "pytest", "-q", "-p", "no:cacheprovider", "tests"], cwd=d, env=dict(os.environ, PYTHONPATH=d, PYTHONDONTWRITEBYTECODE="1"))
        last = t.stdout.strip().splitlines()[-1] if t.stdout.strip() else t.stderr[-200:]
        meta["suite_with_patch"] = dict(exit=t.returncode, summary=last)
        rc1, out1 = run_demo(d, demo_src, wt)
        meta["demo_with_patch"] = dict(exit=rc1, tail=out1[-300:])
        meta["confirmed"] = bool(t.returncode == 0 and rc1 != 0 and rc0 == 0)
        meta["checks"] = {}
        for cid in checks:
            env = dict(os.environ, PYCPARSER_REPO=d, VERIF_EVIDENCE_DIR=os.path.join(d, "_evidence"))
            t0 = time.time()
            try:
                p = sh([os.path.join(HERE, "check"), cid, "--tier", "quick"], cwd=HERE, env=env, timeout=2400)
            except subprocess.TimeoutExpired:
                meta["checks"][cid] = dict(exit=None, violations=0, wall_s=2400, first="", caught=False, harness_error="check did not finish within 40 minutes on the patched tree")
                continue
            viol = [l for l in p.stdout.splitlines() if l.startswith("VIOLATION")]
            first = [l for l in p.stdout.splitlines() if l.startswith("violation ")][:1]
            detail = ""
            if first:
                i = p.stdout.splitlines().index(first[0])
                detail = "\n".join(p.stdout.splitlines()[i : i + 4])[:700]
            meta["checks"][cid] = dict(exit=p.returncode, violations=len(viol), wall_s=round(time.time() - t0, 1), first=detail, caught=bool(p.returncode == 1 and viol))
            if p.returncode == 2:
                meta["checks"][cid]["harness_error"] = p.stdout[-400:]
        out = os.path.join(HERE, "seeded", sid)
        os.makedirs(out, exist_ok=True)
        open(os.path.join(out, "patch.diff"), "w").write(patch)
        open(os.path.join(out, "demo.py"), "w").write(demo_src)
        meta["ran"] = "tools/seed_verify.py %s %s <worktree> --checks %s" % (sid, prop, ",".join(checks))
        old = {}
        mp = os.path.join(out, "meta.json")
        if os.path.exists(mp):
            old = json.load(open(mp))
        for k in ("what", "needs", "history"):
            if k in old:
                meta[k] = old[k]
        json.dump(meta, open(mp, "w"), indent=1)
        print(json.dumps({k: meta[k] for k in ("seed", "confirmed", "suite_with_patch", "demo_without_patch", "demo_with_patch")}, indent=None)[:600])
        for cid, r in meta["checks"].items():
            print(cid, "caught=%s exit=%s violations=%s wall=%ss %s" % (r["caught"], r["exit"], r["violations"], r["wall_s"], r["first"].replace("\n", " | ")[:300]))
    finally:
        shutil.rmtree(d, ignore_errors=True)


if __name__ == "__main__":
    main()
