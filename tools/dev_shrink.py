#!/venv/bin/python
"""Development aid: find + shrink model/parser disagreements with Hypothesis."""
import os, sys
HERE = os.path.dirname(os.path.dirname(os.path.abspath(__file__)))
sys.path.insert(0, HERE); sys.path.insert(0, os.environ.get("PYCPARSER_REPO", "/repo"))
from multiprocessing import Pool
from vlib import cmodel as M, gen
from vlib.runner import Stats, hyp_search, fail
from vlib.astdump import dump, first_difference
from pycparser import c_parser
QUAR = set(sys.argv[3].split(",") if len(sys.argv) > 3 else ["stmt.static_assert_in_block", "decl.register_on_unnamed_parameter"])
def body(c):
    g = gen.G(c, quarantine=QUAR)
    tu = M.freshen(gen.gen_unit(g, 1))
    mode = c.choice(["min", "red", "full"])
    r = M.Renderer(mode, paren=lambda n: False)
    r.unit(tu)
    src = gen.PRELUDE + "\n" + M.text_of(r.toks)
    try:
        ast = c_parser.CParser().parse(src, "f.c")
    except Exception as e:
        fail("parse", tu, src, str(e), "err:" + str(e).split(": ", 1)[-1][:25])
    got = M.normalize(dump(ast)); got = ("FileAST", ("ext", got[1][1][gen.PRELUDE_NEXT:]))
    exp = M.normalize(M.Expect().unit(tu))
    if got != exp:
        fail("ast", tu, src, str(first_difference(got, exp)), "diff")
def shard(seed):
    st = Stats(); hyp_search(body, seed, int(sys.argv[1]), st, shrink_seconds=20); return st
if __name__ == "__main__":
    with Pool(16) as p: res = p.map(shard, range(int(sys.argv[2]), int(sys.argv[2]) + 16))
    seen = set()
    for st in res:
        for f in st.failures:
            t = f["text"].split("\n", 1)[1]
            if t not in seen:
                seen.add(t); print(f["sig"], "|", t.strip(), "|", f["detail"][:150])
