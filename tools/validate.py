#!/usr/bin/env python3-vt
"""Validates MANIFEST.json and evidence/*.json against the harness schemas (run with python3-vt)."""
import glob, json, sys
import jsonschema
ok = True
def v(path, schema):
    global ok
    try:
        jsonschema.validate(json.load(open(path)), json.load(open(schema)))
        print("valid  ", path)
    except Exception as e:
        ok = False
        print("INVALID", path, str(e)[:300])
v('/verif/MANIFEST.json', '/root/.vp/MANIFEST.schema.json')
for f in sorted(glob.glob('/verif/evidence/*.json')):
    v(f, '/root/.vp/EVIDENCE.schema.json')
sys.exit(0 if ok else 1)
