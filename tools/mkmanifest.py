#!/venv/bin/python
"""Regenerates MANIFEST.json from the table below (one entry per property
whose check module exists under vlib/props/)."""
import json
import os

HERE = os.path.dirname(os.path.dirname(os.path.abspath(__file__)))

TABLE = {
    "C01": dict(
        technique="differential acceptance against gcc: Hypothesis-driven typed program builder (only gcc -pedantic-errors-valid programs count) + grammar-derived translation units (gcc consulted on rejection) + gcc-checked corner catalogue",
        text="Tier 1: type-correct C99/C11 programs from a typed builder covering all statement kinds, operators, aggregate types, initializers, VLAs, K&R definitions and the documented C11 constructs; each program gcc accepts under -std=c99/-std=c11 -pedantic-errors must parse. Tier 2: translation units derived from Annex A under the typedef-name rule must parse; on rejection gcc decides between generator fault (harness error) and violation. 131 corner snippets are validated by gcc at start. Statistical; constructs outside the two generators (e.g. _Generic) are not covered; nine listed acceptance findings (F9-F18) are replayed separately.",
        note="Identifiers include words that are keywords only in other dialects or macros of a header (alignas, bool, static_assert, typeof, ...). Trusted: gcc 12 as validity oracle (first diagnostic only for tier 2), the typed builder never producing double-underscore keywords.",
        ref="DESIGN.md section 4, C01",
    ),
    "C02": dict(
        technique="model-based oracle: exhaustive enumeration of small expression trees + Hypothesis-generated trees, rendered in 3 parenthesisation modes x 17 contexts, compared with the grammar-derived expected AST; position sweeps of a fixed unit over token indices",
        text="Every expression tree with up to 2 (quick) / 3 (thorough) operator nodes over 54 operator kinds is rendered with minimal and full parentheses (identifiers and constants included) in 17 contexts and the parsed subtree must equal the tree derived from the C grammar; Hypothesis adds deeper random trees with redundant parentheses and every constant kind. A fixed unit of position-sensitive constructs is parsed behind N empty declarations for every N that puts one of its tokens on a power-of-two or round decimal token index up to 131 072 / 262 144, and repeated 120 / 800 times behind j empty declarations for every j below its length (each token on every index up to 11 000 / 76 000). Complete inside the enumerated bounds, statistical beyond.",
        note="Trusted: the independent expression model in vlib/cmodel.py (levels table, renderer, expected-AST builder), cross-checked by the renderer/expectation agreeing with the unchanged parser on > 200 000 cases.",
        ref="DESIGN.md section 4, C02",
    ),
    "C03": dict(
        technique="model-based oracle: exhaustive enumeration of declarator derivation sequences x contexts + Hypothesis-generated full declarations, compared with the AST the inside-out declarator rule gives; specifier census",
        text="Every derivation sequence up to length 3 (quick) / 4 (thorough) over 20 pointer/array/function constructors is placed in 11 declaration and type-name contexts and the parsed chain must equal the derivation order; every derivation sequence up to length 2 / 3 is also declared under the name of a visible file-scope typedef in 6 contexts that allow it (block object, block typedef followed by a use, for-init, prototype parameter, definition parameter followed by a use, member); Hypothesis generates complete declarations (specifier shuffles with repeated qualifiers and function specifiers, multi-declarators, redundant parentheses in named and abstract declarators, initializers with designators, bit-fields, tags re-defined in sibling scopes, look-alike identifier spellings, bodies, K&R and prototype definitions). Complete inside the bound, statistical beyond; _Atomic(T) beyond its simplest form is excluded (known findings F12*).",
        note="Trusted: the declaration model in vlib/cmodel.py (inside-out renderer and expected-AST builder) and the normalisation of TypeDecl.align / Typename.name.",
        ref="DESIGN.md section 4, C03",
    ),
    "C05": dict(
        technique="model-based oracle: exhaustive enumeration of statement trees and switch bodies + Hypothesis-generated bodies, compared with the grammar nesting and an independent re-implementation of the documented switch regrouping",
        text="All statement trees to depth 2 (quick) / 3 (thorough, restricted binary nodes) and all switch bodies with up to 4 / 5 direct items are parsed as function bodies and compared with the expected nesting; Hypothesis adds deep random bodies with pragmas at every boundary. Complete inside the bound, statistical beyond; block-scope _Static_assert is excluded (known finding F19).",
        note="Trusted: the statement model and the regrouping re-implemented from the docstring of fix_switch_cases (vlib/cmodel.py).",
        ref="DESIGN.md section 4, C05",
    ),
    "C06": dict(
        technique="exhaustive enumeration of short token sequences and of short literal strings + Hypothesis token-mutation, construct splicing, character-noise and directive-line fuzzing + coverage-guided campaigns (atheris/libFuzzer) with a committed corpus; outcome-class oracle",
        text="Every token sequence up to length 3 (quick) / 4 and 5 over a reduced alphabet (thorough) after 8 context prefixes is parsed and its outcome classified; every string up to length 4 / 5 over three literal alphabets is parsed in two positions; character constants, string literals and header-name look-alikes made of up to 300 (5 000) copies of each of 15 pieces (all escape forms, bad escapes), closed or open, must be answered within the CPU budget; beyond that, Hypothesis mutates valid programs at token level, splices constructs, generates character noise (incl. characters Python takes for digits or blanks) and # lines from hostile pieces, and 6 (quick) / 20 (thorough) coverage-guided campaigns of 12 000 / 150 000 executions run on the instrumented package, half from an empty corpus and half from the committed one (replayed without the fuzzer as well); every failure bucket is re-decided by the check itself. Complete inside the enumerated bounds, statistical outside them; absence of crashes on longer inputs is not established.",
        note="Trusted: the outcome classifier (vlib/oracle.py), a CPU-time alarm as the only non-termination detector, RecursionError tolerated above 100 tokens.",
        ref="DESIGN.md section 4, C06",
    ),
    "C07": dict(
        technique="round-trip oracle (parse . generate . parse = parse, regenerate = identity) over enumerated small constructs, Hypothesis-generated translation units, corpus, accepted token-mutants and accepted inputs of coverage-guided campaigns (atheris/libFuzzer, parser and generator instrumented), both generator configurations",
        text="Every 2-operator expression tree, every derivation sequence up to length 2 (quick) / 3 (thorough) in 11 contexts, every small statement tree and switch body, Hypothesis-generated whole translation units, the preprocessed repository corpus, the corner catalogue, accepted token-mutants, literals / identifiers / lists whose size is close to 127 ... 1023 (31 ... 4095) with escapes on every offset around the limit, the committed fuzz corpus and the accepted inputs of 4 (quick) / 20 (thorough) coverage-guided campaigns (round trip inside the fuzz target, buckets re-decided by the check) are round-tripped with reduce_parentheses off and on. Complete inside the enumerated bound, statistical beyond; listed generator findings (F21, F25a, F12*) are excluded by construction or by an AST predicate on the input.",
        note="Generated initializers include the empty brace list at every depth. Trusted: astdump.dump as structural equality; programs the parser rejects carry no claim.",
        ref="DESIGN.md section 4, C07",
    ),
    "C08": dict(
        technique="translation validation by an independent compiler: gcc -S -O0/-O1 output of the original and of the CGenerator text (both configurations) must be byte-identical, for Hypothesis-generated type-correct programs and the gcc-compilable corpus",
        text="Programs from the typed builder (gcc-valid only) and the preprocessed corpus files gcc compiles are parsed, regenerated and recompiled; the assembly at -O0 and -O1 must be identical after dropping .file/.ident. Nothing of pycparser takes part in the comparison, so faults shared by parser and generator show. Statistical (about 200 programs per quick run, 4 800 per thorough run); differences invisible on LP64 (long vs long long) or in code generation ('static' in array parameters) are out of reach and left to C07.",
        note="The typed builder draws prefix operators on operands starting with the same character ('- --x', '+ ++x', 'a - -b'). Trusted: gcc 12 determinism; at -O0 a difference in nop instructions alone is tolerated (the -O1 comparison is exact); programs gcc rejects are generator misses and unused.",
        ref="DESIGN.md section 4, C08",
    ),
    "C09": dict(
        technique="reference-tokenizer oracle: Hypothesis-generated token sequences under random layouts and directive lines, exhaustive token pairs, exhaustive short strings for the progress/no-silent-skip part",
        text="Generated token sequences with known classes, spellings, lines and columns are laid out with every kind of white space, adjacency where the independent longest-match tokenizer allows it, #pragma lines and 14 linemarker forms (file names spelled with escapes, the empty name); CLexer must return exactly the expected stream; 1 500 - 50 000 directive or blank lines in a row must be lexed through; one long-lived lexer left in abandoned states must behave like a fresh one. All ordered pairs of the 157-token vocabulary and all strings of length <= 4 (quick) / 5 (thorough) over 20 characters are enumerated completely; longer inputs are sampled.",
        note="Trusted: vlib/reflex.py (C99 6.4 pp-token grammar and classifiers). After an error callback only progress and accounting of characters are required, not exact positions.",
        ref="DESIGN.md section 4, C09",
    ),
    "C10": dict(
        technique="exhaustive enumeration of short strings over three literal alphabets against strict and lenient reference grammars (sandwich oracle) + Hypothesis grammar-based literals and corruptions; Constant type/value through the parser",
        text="Every string up to length 5 (quick) / 6 (thorough) over integer, floating and character/string alphabets (alphabets include a decimal digit of another script) is lexed - prefixed literals also with L / u / U / u8 reported as typedef names - and compared with an independent strict C99 literal grammar (must be accepted) and a lenient one (what is accepted must be a literal of that class); malformed families must invoke the error callback; accepted literals are parsed as an initializer, in 6 other positions and in 4 positions the parser reads twice (type name of a compound literal) and Constant.value/type compared with what the spelling implies; Hypothesis-generated runs of adjacent string literals of one prefix family in 13 positions must give one Constant with the concatenated spelling. Complete inside the bound; long literals sampled.",
        note="Trusted: strict/lenient literal grammars in vlib/reflex.py and the malformed-family predicates in vlib/props/c10.py.",
        ref="DESIGN.md section 4, C10",
    ),
    "C14": dict(
        technique="exhaustive sentinel-instance sweep over the classes of _c_ast.cfg (read by an independent cfg parser) + instrumented visitors and show() on Hypothesis-generated and corpus ASTs against the preorder computed from the cfg",
        text="All node classes x all subsets of absent children x sequence shapes are enumerated completely and compared with the cfg (signature, slots, attr_names, children(), iteration); traversal (generic, selective with random class subsets, reused visitors, visitor class hierarchies, handlers attached to the instance or served by __getattr__, reuse after a traversal abandoned by an exception, handlers that remove their node from the sequence being traversed, an overridden visit()) and show() line counts are checked on generated and corpus ASTs against a preorder derived from the cfg, not from children().",
        note="A quarter of the generated programs get backslashes appended to pragma lines. Trusted: the 10-line cfg reader; show() line rule is not asserted for ASTs with node-valued attributes (known finding F29).",
        ref="DESIGN.md section 4, C14",
    ),
    "C15": dict(
        technique="round-trip oracles (eval(repr), pickle protocols 2..HIGHEST, deepcopy) with structural dump equality incl. coordinates, id-disjointness and mutate-the-copy independence on Hypothesis-generated ASTs with hostile literals and on the corpus",
        text="Generated translation units whose string/character constants and pragma texts come from a hostile pool (quotes, backslashes, escapes, non-ASCII, repr look-alikes) and the corpus are parsed; each AST is rebuilt through repr/eval, every supported pickle protocol and deepcopy and compared structurally, by generated text under both generator configurations (also for the repr-rebuilt tree), by object identity and by mutating the copy; every second AST is copied while weak references to all its nodes are alive; every fifth after a repr / pickle / deepcopy that was cut short by a RecursionError. Literal pools include characters outside the BMP and control characters. Statistical over generated programs.",
        note="Two thirds of the programs are parsed under file names with colons, blanks, quotes, backslashes or non-ASCII characters, most behind a linemarker naming a further file. Trusted: astdump.dump (walks __slots__, including node-valued attributes and Coord fields).",
        ref="DESIGN.md section 4, C15",
    ),
    "C19": dict(
        technique="exhaustive sweep over the shipped header files x dialects x argument forms through parse_file(use_cpp=True), differential oracle against a by-hand cpp + CParser pipeline, generated declarations using every typedef name; Hypothesis-chosen header subsets and orders",
        text="All header files found under utils/fake_libc_include at run time x 4 dialects (list form), one of two further list forms per header (-I and the directory as separate elements; a mixed list with -D/-U pairs and a non-existent extra directory) and the string form (include directory reached through a scratch symlink whose name contains a blank and '=') are preprocessed and parsed; results are compared with the by-hand pipeline (coordinates included, also for use_cpp=False) and every typedef name is used in generated declarations; including files that make cpp warn while it succeeds; 6 / 60 rounds of 8 parse_file calls overlapping in time against the same calls made alone. The single-header space is enumerated completely; subsets and orders are sampled.",
        note="Trusted: the system cpp; in the quick tier the deep comparisons run for -std=c11 and the string form only.",
        ref="DESIGN.md section 4, C19",
    ),
    "C17": dict(
        technique="metamorphic oracle: re-layout (line-per-token, single line with maximal adjacency, random blanks/tabs/newlines, linemarkers changing line and file between arbitrary tokens) and redundant-parenthesis re-rendering of Hypothesis-generated and corpus programs must leave dump and regenerated text unchanged",
        text="Each generated translation unit (token list from the model renderer) and each corpus file (split by the reference tokenizer) is laid out in two extreme and several random ways, with linemarkers of 8 forms between arbitrary tokens; model programs are additionally re-rendered with redundant parentheses (identifiers and constants included), and every expression tree with <= 2 (quick) / 3 (thorough) operators is rendered with every subset of its operands parenthesised. All variants must parse to the same AST (coordinates aside) and regenerate the same text. Statistical; corpus files are randomised inside a sliding 250-token span.",
        note="Trusted: the reference tokenizer's adjacency rule; programs the tree does not accept carry no claim.",
        ref="DESIGN.md section 4, C17",
    ),
    "C18": dict(
        technique="exhaustive single-bracket mutation and non-token injection of Hypothesis-generated and corpus programs (incl. every offset of every line directive) + exhaustive bracket strings in three contexts + coverage-guided campaigns (atheris/libFuzzer) over token sequences; bracket-matcher / non-token oracle",
        text="Every single-bracket deletion, duplication and kind swap and every injection of non-token text at bracket positions and declaration/statement boundaries (every token boundary in the thorough tier) of accepted programs must be rejected with ParseError; all bracket strings up to length 6 (quick) / 8 (thorough) in expression, declarator and statement contexts that an independent matcher finds unbalanced must be rejected; non-token text and single brackets at every offset of every line directive of cpp-style and generated programs must be rejected; characters no C token contains glued to the front, inside and end of every non-literal token, single-bracket mutants of the second of two identical copies placed behind the same linemarker, and all mutants of four programs with GNU statement expressions must be rejected; 4 (quick) / 20 (thorough) coverage-guided campaigns and the committed fuzz corpus check that token sequences with a non-token or non-nesting brackets are rejected. Complete per base program and inside the string bound; base programs are sampled.",
        note="Every fifth rejected text and every text with a non-ASCII character is also read from a file by parse_file(use_cpp=False). Trusted: the 10-line bracket matcher and the reference tokenizer used to split corpus files.",
        ref="DESIGN.md section 4, C18",
    ),
    "C12": dict(
        technique="Hypothesis RuleBasedStateMachine over one long-lived CParser / CGenerator pair / CLexer, differential oracle after every call against a private copy of the package created for that one call (no module- or class-level state shared with the instance under test), id-disjointness of returned ASTs",
        text="Histories of 20-40 calls (valid generated programs, programs truncated at arbitrary tokens incl. right after a #pragma token, a pool of clashing programs, texts identical up to one hole, token soup, repeated texts, bursts of one text failing deep inside a nesting followed by a witness text, code generation from any earlier AST, re-use of a bare lexer) are run on reused instances; every outcome (AST with coordinates or exception type and message, generated text, token stream) must equal that of a private copy of the package made for the call and ASTs must share no objects. Statistical over histories; shrinking works on the rule sequence.",
        note="Trusted: vlib/pristine.py (a fresh execution of the package sources under a private module name per reference; a fresh in-process instance is compared with it on every fourth call); astdump.dump with coordinates.",
        ref="DESIGN.md section 4, C12",
    ),
    "C13": dict(
        technique="schedule-owning harness: a lexer subclass injected through lexer= (and yielding CGenerator / NodeVisitor subclasses) parks each thread at every token()/visit() so that interleavings are values; exhaustive interleavings of short clashing program pairs, Hypothesis-generated schedules for 2-4 longer programs, free-running threads with minimal switch interval; oracle = results of the same calls run alone, computed by a private copy of the package per call and, for the pool programs, by a forked process without parsing history",
        text="All interleavings at token granularity of 7 (quick) / 9 (thorough) clashing program pairs (one of them failing at a stray '}' right after a declarator) (incl. directives without file name; every program has its own file name) are enumerated; Hypothesis draws schedules for 2-4 parsers, generators and visitor subclasses on pool programs (two of them far deeper than the recursion limit) and generated programs; 4 and 8 free-running threads repeat parse+generate+parse_file loops; 4 / 24 fresh interpreters have their first parser objects created by 12 threads together; generator instances of four classes are used in drawn orders. Every result must equal the solo result. Complete for the enumerated pairs, statistical beyond; races inside a single method are only reachable by the free-running part.",
        note="Trusted: the controller (raw locks only; a stall of 8 s that repeats with an 80 s limit is reported as a difference, never ignored); vlib/pristine.py for the references.",
        ref="DESIGN.md section 4, C13",
    ),
    "C11": dict(
        technique="provenance oracle: the model renderer records each construct's token range and spelling token, the layout engine each token's real (file, line, column) under random layouts with file-changing linemarkers; lockstep walk of the returned AST against the annotated expected AST; illegal-character injection and token deletion for error locations",
        text="Hypothesis-generated translation units are laid out with blanks, tabs, newlines and linemarkers (8 forms, changing line and file) between arbitrary tokens. Every coordinate must be the start of a real token inside its construct's token range, exactly the spelling token for identifiers, constants and declared names, and present on declarations, statements, identifiers, constants and operators. Every injection of @ ` \\ /* // at every token boundary must be reported at exactly that position; parse errors after single-token deletions must name a real token. Statistical over programs and layouts; per program the injection positions are enumerated completely (<= 80 tokens).",
        note="An illegal character at every offset of a line directive behind the first digit of its number must be reported at exactly that column. Trusted: renderer provenance + layout engine (cross-checked: every generated text is accepted and C09 verifies token positions independently); AST shape as established by C02/C03/C05.",
        ref="DESIGN.md section 4, C11",
    ),
    "C16": dict(
        technique="scalable-family generation (enumerated units and ordered pairs, Hypothesis-composed triples, repetition families) with deterministic work oracles: Python call events (nesting families) and line events (repetition families) under the pycparser package with doubling-ratio and second-difference tests, executed machine instructions of a fresh interpreter under valgrind for large inputs; creeping and long-input CPU-time tests for the lexer regexes",
        text="All single nesting units and ordered pairs of 46 expression, 14 statement, 9 declarator and 7 tag-body units, Hypothesis-drawn triples and 62 repetition families (7 of them growing in two dimensions) are parsed at doubling sizes; the number of pycparser-internal call / line events must at most double (x2.3 + slack) per doubling and, over four doubling sizes, show no quadratic component (second differences). Work inside single C-level operations is measured in executed instructions at k and 4k for 9 (quick) / 18 (thorough) families: at most 8 % of the work at 4k may be in excess of linear growth. 36 adversarial literal and white-space families are timed for the lexer (creeping from 2 units; 64-512 and 2 000-16 000 characters). No family member is followed beyond 16x its event allowance or 15 s of user-mode CPU time. Complete over the enumerated units; only the lexer part uses time, with wide margins, CPU time and re-measurement.",
        note="Trusted: event counting by package directory; valgrind instruction counts (reproducible to 0.001 %); lexer timing thresholds (0.5 s for <= 64 units of an escape run, > 3x per doubling twice in a row above 20 ms) and the 15 s CPU budget per family member are hints only: each is re-decided by instruction counts before it is reported. The exponential re-parse of a compound literal inside the type name of a compound literal is a known finding (F30) and excluded, as is the k^2 cost of k array suffixes (F34).",
        ref="DESIGN.md section 4, C16",
    ),
    "C04": dict(
        technique="history generation against a reference scope model: exhaustive enumeration of declaration-event sequences over a 27-event alphabet with probes after every event + Hypothesis-generated longer histories (shrinking the event list)",
        text="All event sequences up to length 3 and half of length 4 (quick) / all up to length 4 and a seventh of length 5 (thorough) over typedef/object/function/enumerator/tag/member/prototype-parameter/label/function (plain, name as parameter, name as the function's own name)/brace-construct (initializer lists, compound literals, member lists inside expressions: 16 forms)/block events, each in 3-8 spellings, for two names are rendered with four kinds of probe statements after every event for every name; a reference scope stack written from C99 6.2.1 predicts the reading (declaration/cast/type operand vs expression) of each probe. Complete inside the bound; events that trigger the listed scoping findings (F13-F18, F9a) are excluded and replayed separately.",
        note="Trusted: the reference scope model in vlib/props/c04.py; histories it deems invalid C carry no claim.",
        ref="DESIGN.md section 4, C04",
    ),
}

NOT_YET = "check not built yet in this session (work in progress; see DESIGN.md section 9 for the order of work)"


def main():
    props = [json.loads(l) for l in open(os.path.join(HERE, "properties.jsonl"))]
    checks = []
    na = []
    for p in props:
        pid = p["id"]
        t = TABLE.get(pid)
        if t is None or not os.path.exists(os.path.join(HERE, "vlib", "props", pid.lower() + ".py")):
            na.append(dict(property_id=pid, reason=NOT_YET))
            continue
        checks.append(
            dict(
                property_id=pid,
                quick_cmd="./check %s --tier quick" % pid,
                thorough_cmd="./check %s --tier thorough" % pid,
                evidence_file="evidence/%s.json" % pid,
                replay_cmd_template="./check %s --replay {path}" % pid,
                engine="vlib",
                level_claimed=dict(category="exploration", text=t["text"], design_ref=t["ref"]),
                level_note=t["note"],
                technique=t["technique"],
            )
        )
    man = dict(
        version=1,
        setup_cmd="(/venv/bin/python -c 'import hypothesis' 2>/dev/null || /venv/bin/pip install -q --no-index --find-links /opt/veriftools/wheels --target /verif/.deps hypothesis) && (PYTHONPATH=/verif/.deps /venv/bin/python -c 'import atheris' 2>/dev/null || /venv/bin/pip install -q --no-index --find-links /opt/veriftools/wheels --target /verif/.deps atheris)",
        hooks=dict(
            guard="PYCPARSER_VERIF",
            enable="no source hooks are needed: checks observe pycparser through its public API only (the guard variable is exported by ./check but no file under /repo reads it)",
            baseline_off_cmd="cd /repo && /venv/bin/python -m pytest -ra -q -p no:cacheprovider",
            source_commits=[],
            add_only=True,
        ),
        engines=[
            dict(
                name="vlib",
                path="vlib/",
                serves_properties=[c["property_id"] for c in checks],
                kind_free_text="property-based testing: Hypothesis generators (sharded over 16 processes, seeded from VERIF_SEED), exhaustive itertools enumeration of small finite spaces, independent oracles (reference models, gcc, reference lexer, fresh instances)",
            )
        ],
        checks=checks,
        not_applicable=na,
        notes="Entry point ./check <ID> --tier quick|thorough [--replay FILE]. Known findings: KNOWN_FINDINGS.txt. Genuine defects repaired in /repo are 'fix:' commits listed there as 'fixed:' lines.",
    )
    with open(os.path.join(HERE, "MANIFEST.json"), "w") as f:
        json.dump(man, f, indent=1)
        f.write("\n")
    print("checks:", [c["property_id"] for c in checks], "not_applicable:", len(na))


if __name__ == "__main__":
    main()
