"""Mutant catalogue for tools/sensitivity.py: realistic changes to pycparser
that compile and (mostly) pass its test suite.  edits: (file, old, new)."""
P = "pycparser/c_parser.py"
G = "pycparser/c_generator.py"
L = "pycparser/c_lexer.py"
A = "pycparser/c_ast.py"
T = "pycparser/ast_transforms.py"

MUTANTS = {
    "C02-prec-swap": dict(
        what="precedence of << >> and + - swapped in parser AND generator",
        checks=["C02"],
        edits=[
            (P, '"RSHIFT": 7,\n    "LSHIFT": 7,\n    "PLUS": 8,\n    "MINUS": 8,', '"RSHIFT": 8,\n    "LSHIFT": 8,\n    "PLUS": 7,\n    "MINUS": 7,'),
            (G, '">>": 7,\n        "<<": 7,\n        "+": 8,\n        "-": 8,', '">>": 8,\n        "<<": 8,\n        "+": 7,\n        "-": 7,'),
        ],
    ),
    "C02-right-assoc": dict(
        what="binary operators of equal precedence associate to the right",
        checks=["C02"],
        edits=[(P, "if next_prec > prec:", "if next_prec >= prec:")],
    ),
    "C02-cond-false-branch": dict(
        what="?: false branch parsed as binary expression (loses a ? b : c ? d : e)",
        checks=["C02"],
        edits=[(P, "iffalse = self._parse_conditional_expression()", "iffalse = self._parse_binary_expression()")],
    ),
    "C02-cond-middle": dict(
        what="?: middle operand parsed as assignment expression (loses a ? b, c : d)",
        checks=["C02"],
        edits=[(P, "iftrue = self._parse_expression()\n            self._expect(\"COLON\")", "iftrue = self._parse_assignment_expression()\n            self._expect(\"COLON\")")],
    ),
    "C02-postfix-p": dict(
        what="postfix ++/-- recorded without the 'p' prefix",
        checks=["C02"],
        edits=[(P, 'expr = c_ast.UnaryOp("p" + tok.value, expr, expr.coord)', "expr = c_ast.UnaryOp(tok.value, expr, expr.coord)")],
    ),
    "C02-suffix-count": dict(
        what="integer suffix counting looks at the last two characters only (ULL -> long long)",
        checks=["C02", "C10"],
        edits=[(P, "for ch in tok.value[-3:]:", "for ch in tok.value[-2:]:")],
    ),
    "C02-unary-binds-binary": dict(
        what="prefix operator operand parsed as a full binary expression (-a*b -> -(a*b))",
        checks=["C02"],
        edits=[(P, 'tok = self._advance()\n            expr = self._parse_cast_expression()\n            return c_ast.UnaryOp(tok.value, expr, expr.coord)', 'tok = self._advance()\n            expr = self._parse_binary_expression(9)\n            return c_ast.UnaryOp(tok.value, expr, expr.coord)')],
    ),
}
