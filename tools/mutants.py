"""Mutant catalogue for tools/sensitivity.py: realistic changes to pycparser
that compile and (mostly) pass its test suite.  edits: (file, old, new)."""
P = "pycparser/c_parser.py"
G = "pycparser/c_generator.py"
L = "pycparser/c_lexer.py"
A = "pycparser/c_ast.py"
T = "pycparser/ast_transforms.py"

MUTANTS = {
    "C02-prec-swap": dict(
        what="precedence of << >> and + - swapped in parser AND generator",
        checks=["C02"],
        edits=[
            (P, '"RSHIFT": 7,\n    "LSHIFT": 7,\n    "PLUS": 8,\n    "MINUS": 8,', '"RSHIFT": 8,\n    "LSHIFT": 8,\n    "PLUS": 7,\n    "MINUS": 7,'),
            (G, '">>": 7,\n        "<<": 7,\n        "+": 8,\n        "-": 8,', '">>": 8,\n        "<<": 8,\n        "+": 7,\n        "-": 7,'),
        ],
    ),
    "C02-right-assoc": dict(
        what="binary operators of equal precedence associate to the right",
        checks=["C02"],
        edits=[(P, "if next_prec > prec:", "if next_prec >= prec:")],
    ),
    "C02-cond-false-branch": dict(
        what="?: false branch parsed as binary expression (loses a ? b : c ? d : e)",
        checks=["C02"],
        edits=[(P, "iffalse = self._parse_conditional_expression()", "iffalse = self._parse_binary_expression()")],
    ),
    "C02-cond-middle": dict(
        what="?: middle operand parsed as assignment expression (loses a ? b, c : d)",
        checks=["C02"],
        edits=[(P, "iftrue = self._parse_expression()\n            self._expect(\"COLON\")", "iftrue = self._parse_assignment_expression()\n            self._expect(\"COLON\")")],
    ),
    "C02-postfix-p": dict(
        what="postfix ++/-- recorded without the 'p' prefix",
        checks=["C02"],
        edits=[(P, 'expr = c_ast.UnaryOp("p" + tok.value, expr, expr.coord)', "expr = c_ast.UnaryOp(tok.value, expr, expr.coord)")],
    ),
    "C02-suffix-count": dict(
        what="integer suffix counting looks at the last two characters only (ULL -> long long)",
        checks=["C02", "C10"],
        edits=[(P, "for ch in tok.value[-3:]:", "for ch in tok.value[-2:]:")],
    ),
    "C02-unary-binds-binary": dict(
        what="prefix operator operand parsed as a full binary expression (-a*b -> -(a*b))",
        checks=["C02"],
        edits=[(P, 'tok = self._advance()\n            expr = self._parse_cast_expression()\n            return c_ast.UnaryOp(tok.value, expr, expr.coord)', 'tok = self._advance()\n            expr = self._parse_binary_expression(9)\n            return c_ast.UnaryOp(tok.value, expr, expr.coord)')],
    ),
    "C03-ptr-order": dict(
        what="pointer chain built in the opposite order (int * const * p -> qualifiers on the wrong level)",
        checks=["C03"],
        edits=[(P, "        for quals, coord in stars:\n            ptr = c_ast.PtrDecl", "        for quals, coord in reversed(stars):\n            ptr = c_ast.PtrDecl")],
    ),
    "C03-dimquals-order": dict(
        what="'static' recorded after the qualifiers in [static const n]",
        checks=["C03"],
        edits=[(P, 'dim_quals = ["static"] + (self._parse_type_qualifier_list() or [])', 'dim_quals = (self._parse_type_qualifier_list() or []) + ["static"]')],
    ),
    "C03-quals-lost": dict(
        what="base-level qualifiers not copied to the TypeDecl",
        checks=["C03"],
        edits=[(P, "typ.quals = decl.quals[:]", "typ.quals = []")],
    ),
    "C03-storage-prepend": dict(
        what="storage-class specifiers collected in reverse source order",
        checks=["C03"],
        edits=[(P, 'spec, self._advance().value, "storage", append=True', 'spec, self._advance().value, "storage", append=False')],
    ),
    "C03-funcspec-prepend": dict(
        what="function specifiers collected in reverse source order",
        checks=["C03"],
        edits=[(P, 'spec, self._advance().value, "function", append=True', 'spec, self._advance().value, "function", append=False')],
    ),
    "C03-modifier-head": dict(
        what="array/function modifier spliced at the head of the chain instead of the tail",
        checks=["C03"],
        edits=[(P, "            modifier_tail.type = decl_tail.type\n            decl_tail.type = modifier_head\n            return decl", "            modifier_tail.type = decl\n            return modifier_head")],
    ),
    "C03-ellipsis-lost": dict(
        what="', ...' accepted but not recorded in the parameter list",
        checks=["C03"],
        edits=[(P, "            params.params.append(c_ast.EllipsisParam(self._tok_coord(ell_tok)))", "            pass")],
    ),
    "C03-bitsize-second": dict(
        what="bit-field width of the second and later struct declarators dropped",
        checks=["C03"],
        edits=[(P, "        while self._accept(\"COMMA\"):\n            decls.append(self._parse_struct_declarator())", "        while self._accept(\"COMMA\"):\n            decls.append(dict(self._parse_struct_declarator(), bitsize=None))")],
    ),
    "C03-designator-first-only": dict(
        what="only the first designator of a designation kept",
        checks=["C03"],
        edits=[(P, "        designators = self._parse_designator_list()\n        self._expect(\"EQUALS\")\n        return designators", "        designators = self._parse_designator_list()\n        self._expect(\"EQUALS\")\n        return designators[:1]")],
    ),
    "C05-last-case-child": dict(
        what="switch regrouping: statements after a nested case chain attach to the first case of the chain",
        checks=["C05"],
        edits=[(T, "            last_case = new_compound.block_items[-1]", "            last_case = child")],
    ),
    "C05-for-slots": dict(
        what="for (decl; cond; next): cond and next swapped in the declaration-init branch",
        checks=["C05"],
        edits=[(P, "                    return c_ast.For(init, cond, next_expr, stmt, self._tok_coord(tok))\n\n                init = self._parse_expression_opt()", "                    return c_ast.For(init, next_expr, cond, stmt, self._tok_coord(tok))\n\n                init = self._parse_expression_opt()")],
    ),
    "C05-pragma-first-only": dict(
        what="pragma-prefixed substatement keeps only the first pragma",
        checks=["C05"],
        edits=[(P, "            return c_ast.Compound(block_items=pragmas + [stmt], coord=pragmas[0].coord)", "            return c_ast.Compound(block_items=pragmas[:1] + [stmt], coord=pragmas[0].coord)")],
    ),
    "C05-label-no-pragma": dict(
        what="statement after a label parsed without the pragma wrapping",
        checks=["C05"],
        edits=[(P, "                if self._starts_statement():\n                    stmt = self._parse_pragmacomp_or_statement()\n                else:\n                    stmt = c_ast.EmptyStatement(self._tok_coord(name_tok))", "                if self._starts_statement():\n                    stmt = self._parse_statement()\n                else:\n                    stmt = c_ast.EmptyStatement(self._tok_coord(name_tok))")],
    ),
    "C05-dowhile-swap": dict(
        what="do-while: a pragma before the body is dropped",
        checks=["C05"],
        edits=[(P, '            case "DO":\n                stmt = self._parse_pragmacomp_or_statement()', '            case "DO":\n                if self._peek_type() == "PPPRAGMA":\n                    self._parse_pppragma_directive_list()\n                stmt = self._parse_pragmacomp_or_statement()')],
    ),
    "C05-pragma-strip": dict(
        what="#pragma text loses trailing blanks",
        checks=["C05"],
        edits=[(L, 'toks.append(self._make_token("PPPRAGMASTR", text[start:pos], start))', 'toks.append(self._make_token("PPPRAGMASTR", text[start:pos].rstrip(), start))')],
    ),
    "C09-bucket-order": dict(
        what="punctuator buckets sorted shortest first (>>= lexes as >, >, =)",
        checks=["C09"],
        edits=[(L, "_bucket.sort(key=lambda item: len(item.literal), reverse=True)", "_bucket.sort(key=lambda item: len(item.literal))")],
    ),
    "C09-tab-linestart": dict(
        what="a tab moves the line start (columns after a tab are off)",
        checks=["C09"],
        edits=[(L, '                case " " | "\\t":\n                    self._pos += 1', '                case " ":\n                    self._pos += 1\n                case "\\t":\n                    self._pos += 1\n                    self._line_start += 1')],
    ),
    "C09-pragma-linestart": dict(
        what="#pragma handler does not move the line start to the next line",
        checks=["C09"],
        edits=[(L, "            self._lineno += 1\n            pos += 1\n            self._line_start = pos\n        self._pos = pos\n        return toks", "            self._lineno += 1\n            pos += 1\n        self._pos = pos\n        return toks")],
    ),
    "C09-line-plus-one": dict(
        what="#line N makes the next line N+1",
        checks=["C09"],
        edits=[(L, "                    self._lineno = int(pp_line)", "                    self._lineno = int(pp_line) + 1")],
    ),
    "C09-keyword-lookup": dict(
        what="type_lookup_func consulted for keywords too",
        checks=["C09"],
        edits=[(L, '                if tok_type == "ID" and self.type_lookup_func(value):', "                if self.type_lookup_func(value):")],
    ),
    "C09-error-skips-two": dict(
        what="illegal character error skips the following character as well",
        checks=["C09"],
        edits=[(L, '            self._error(f"Illegal character {repr(text[pos])}", pos)\n            self._pos += 1', '            self._error(f"Illegal character {repr(text[pos])}", pos)\n            self._pos += 2')],
    ),
    "C09-pragma-swallow-line": dict(
        what="an empty #pragma swallows the blanks/newline handling and eats the next line",
        checks=["C09"],
        edits=[(L, '        while pos < n and text[pos] in " \\t":\n            pos += 1\n\n        start = pos', '        while pos < n and text[pos] in " \\t\\n":\n            pos += 1\n\n        start = pos')],
    ),
    "C09-dollar": dict(
        what="'$' no longer allowed inside identifiers",
        checks=["C09"],
        edits=[(L, '_identifier = r"[a-zA-Z_$][0-9a-zA-Z_$]*"', '_identifier = r"[a-zA-Z_$][0-9a-zA-Z_]*"')],
    ),
    "C10-hex-g": dict(
        what="'g' accepted as a hexadecimal digit",
        checks=["C10"],
        edits=[(L, '_hex_digits = "[0-9a-fA-F]+"', '_hex_digits = "[0-9a-gA-F]+"')],
    ),
    "C10-bin-2": dict(
        what="'2' accepted as a binary digit",
        checks=["C10"],
        edits=[(L, '_bin_digits = "[01]+"', '_bin_digits = "[012]+"')],
    ),
    "C10-exp-signs": dict(
        what="several signs accepted in a decimal exponent",
        checks=["C10"],
        edits=[(L, '_exponent_part = r"""([eE][-+]?[0-9]+)"""', '_exponent_part = r"""([eE][-+]*[0-9]+)"""')],
    ),
    "C10-exp-nodigits": dict(
        what="decimal exponent without digits accepted (1e)",
        checks=["C10"],
        edits=[(L, '_exponent_part = r"""([eE][-+]?[0-9]+)"""', '_exponent_part = r"""([eE][-+]?[0-9]*)"""')],
    ),
    "C10-hexfloat-noexp": dict(
        what="hexadecimal floating constant without binary exponent accepted",
        checks=["C10"],
        edits=[(L, '    + _binary_exponent_part\n    + "[FfLl]?)"', '    + _binary_exponent_part\n    + "?[FfLl]?)"')],
    ),
    "C10-multichar-unbounded": dict(
        what="multi-character constants of any length accepted",
        checks=["C10"],
        edits=[(L, "_cconst_char + \"{2,4}'\"", "_cconst_char + \"{2,}'\"")],
    ),
    "C10-empty-char": dict(
        what="'' no longer reported (BAD_CHAR_CONST alternative removed)",
        checks=["C10"],
        edits=[(L, """[^'\\n]+')|('')|('\"\"\" + _bad_escape""", """[^'\\n]+')|('\"\"\" + _bad_escape""")],
    ),
    "C10-float-type-l": dict(
        what="floating suffix l/L typed double",
        checks=["C10", "C02"],
        edits=[(P, '            elif tok.value[-1] in ("l", "L"):\n                t = "long double"', '            elif tok.value[-1] in ("L",):\n                t = "long double"')],
    ),
    "C10-bad-octal-silent": dict(
        what="bad octal constants (09) no longer reported: lexed as two tokens",
        checks=["C10"],
        edits=[(L, '_bad_octal_constant = "0[0-7]*[89]"', '_bad_octal_constant = "0[0-7]*[89]x"')],
    ),
    "C14-if-iter": dict(
        what="If.__iter__ no longer yields iffalse",
        checks=["C14"],
        edits=[(A, "        if self.iffalse is not None:\n            yield self.iffalse\n\n    attr_names = ()", "        if self.iffalse is not None:\n            pass\n\n    attr_names = ()")],
    ),
    "C14-arraydecl-attr": dict(
        what="dim_quals dropped from ArrayDecl.attr_names",
        checks=["C14"],
        edits=[(A, '    attr_names = ("dim_quals",)', "    attr_names = ()")],
    ),
    "C14-children-order": dict(
        what="For.children() lists stmt before next",
        checks=["C14"],
        edits=[(A, '        if self.next is not None:\n            nodelist.append(("next", self.next))\n        if self.stmt is not None:\n            nodelist.append(("stmt", self.stmt))', '        if self.stmt is not None:\n            nodelist.append(("stmt", self.stmt))\n        if self.next is not None:\n            nodelist.append(("next", self.next))')],
    ),
    "C14-method-cache-class": dict(
        what="NodeVisitor method cache shared at class level between visitor instances and subclasses",
        checks=["C14", "C13"],
        edits=[(A, "    _method_cache = None\n", "    _method_cache = {}\n")],
    ),
    "C14-swap-ctor": dict(
        what="Cast constructor parameters swapped (expr, to_type)",
        checks=["C14"],
        edits=[(A, "    def __init__(self, to_type, expr, coord=None):\n        self.to_type = to_type\n        self.expr = expr", "    def __init__(self, expr, to_type, coord=None):\n        self.to_type = to_type\n        self.expr = expr")],
    ),
    "C14-show-skips-none-children": dict(
        what="show() prints an extra line for empty attribute lists",
        checks=["C14"],
        edits=[(A, '        if showcoord:\n            buf.write(f" (at {self.coord})")\n        buf.write("\\n")', '        if showcoord:\n            buf.write(f" (at {self.coord})")\n        buf.write("\\n")\n        if self.attr_names and not nvlist:\n            buf.write("\\n")')],
    ),
    "C15-repr-slots": dict(
        what="__repr__ includes coord positionally (slots[:-1])",
        checks=["C15"],
        edits=[(A, "        for name in self.__slots__[:-2]:", "        for name in self.__slots__[:-1]:")],
    ),
    "C15-repr-quote": dict(
        what="_repr quotes strings by hand",
        checks=["C15"],
        edits=[(A, "    else:\n        return repr(obj)", "    elif isinstance(obj, str):\n        return \"'\" + obj + \"'\"\n    else:\n        return repr(obj)")],
    ),
    "C15-deepcopy-identifiertype": dict(
        what="IdentifierType.__deepcopy__ returns self (copies share nodes)",
        checks=["C15"],
        edits=[(A, "class IdentifierType(Node):\n    __slots__ = (\"names\", \"coord\", \"__weakref__\")\n", "class IdentifierType(Node):\n    __slots__ = (\"names\", \"coord\", \"__weakref__\")\n\n    def __deepcopy__(self, memo):\n        return self\n")],
    ),
    "C15-coord-reduce": dict(
        what="Coord pickles without its column",
        checks=["C15"],
        edits=[(P, "    def __str__(self) -> str:\n        text = f\"{self.file}:{self.line}\"", "    def __reduce__(self):\n        return (Coord, (self.file, self.line))\n\n    def __str__(self) -> str:\n        text = f\"{self.file}:{self.line}\"")],
    ),
    "C19-missing-typedef": dict(
        what="uint32_t removed from _fake_typedefs.h although xcb typedefs further down use it",
        checks=["C19"],
        edits=[("utils/fake_libc_include/_fake_typedefs.h", "typedef int uint32_t;\n", "")],
    ),
    "C19-split-string-args": dict(
        what="a cpp_args string is split on blanks",
        checks=["C19"],
        edits=[("pycparser/__init__.py", "        path_list += [cpp_args]", "        path_list += cpp_args.split()")],
    ),
    "C19-gnu-attribute": dict(
        what="a GNU attribute added to one fake header",
        checks=["C19"],
        edits=[("utils/fake_libc_include/fmtmsg.h", '#include "_fake_typedefs.h"', '#include "_fake_typedefs.h"\nextern int fmtmsg_x(long) __attribute__((noreturn));')],
    ),
    "C19-list-args-joined": dict(
        what="a cpp_args list is joined into one argument",
        checks=["C19"],
        edits=[("pycparser/__init__.py", "        path_list += cpp_args\n", "        path_list += [\" \".join(cpp_args)]\n")],
    ),
    "C19-filename-lost": dict(
        what="parse_file parses the text without passing the file name",
        checks=["C19"],
        edits=[("pycparser/__init__.py", "    return parser.parse(text, filename)", "    return parser.parse(text)")],
    ),
    "C18-subscript-accept": dict(
        what="']' of a subscript only accepted, not required",
        checks=["C18"],
        edits=[(P, '                sub = self._parse_expression()\n                self._expect("RBRACKET")', '                sub = self._parse_expression()\n                self._accept("RBRACKET")')],
    ),
    "C18-pphash-skipped": dict(
        what="unknown preprocessor directives are skipped silently",
        checks=["C18"],
        edits=[(P, '        if tok.type == "PPHASH":\n            self._parse_pp_directive()\n            return []', '        if tok.type == "PPHASH":\n            self._advance()\n            while self._peek() is not None and self._peek().lineno == tok.lineno:\n                self._advance()\n            return []')],
    ),
    "C18-call-rparen-optional": dict(
        what="')' closing an argument list is optional before ';'",
        checks=["C18"],
        edits=[(P, '                    args = self._parse_argument_expression_list()\n                    self._expect("RPAREN")', '                    args = self._parse_argument_expression_list()\n                    if self._peek_type() != "SEMI":\n                        self._expect("RPAREN")')],
    ),
    "C18-initlist-brace-optional": dict(
        what="'}' closing an initializer list is optional at a ';'",
        checks=["C18"],
        edits=[(P, '            init_list = self._parse_initializer_list()\n            self._accept("COMMA")\n            self._expect("RBRACE")\n            return init_list', '            init_list = self._parse_initializer_list()\n            self._accept("COMMA")\n            if self._peek_type() != "SEMI":\n                self._expect("RBRACE")\n            return init_list')],
    ),
    "C18-backslash-ignored": dict(
        what="a stray backslash is treated as white space by the lexer",
        checks=["C18", "C09"],
        edits=[(L, '                case " " | "\\t":\n                    self._pos += 1', '                case " " | "\\t" | "\\\\":\n                    self._pos += 1')],
    ),
    "C18-comment-skipped": dict(
        what="// comments are skipped by the lexer instead of being reported",
        checks=["C18", "C10"],
        edits=[(L, '                case "#":\n                    if _line_pattern.match(text, self._pos + 1):', '                case "/" if text.startswith("//", self._pos):\n                    nl = text.find("\\n", self._pos)\n                    self._pos = n if nl < 0 else nl\n                case "#":\n                    if _line_pattern.match(text, self._pos + 1):')],
    ),
    "C17-paren-exprlist": dict(
        what="a parenthesised assignment is wrapped in a one-element ExprList",
        checks=["C17"],
        edits=[(P, '            self._advance()\n            expr = self._parse_expression()\n            self._expect("RPAREN")\n            return expr', '            self._advance()\n            expr = self._parse_expression()\n            self._expect("RPAREN")\n            if isinstance(expr, c_ast.Assignment):\n                return c_ast.ExprList([expr], expr.coord)\n            return expr')],
    ),
    "C17-label-same-line": dict(
        what="'name :' is only a label when the colon is on the same line as the name",
        checks=["C17"],
        edits=[(P, '            case "ID" if self._peek_type(2) == "COLON":', '            case "ID" if self._peek_type(2) == "COLON" and self._peek(2).lineno == self._peek().lineno:')],
    ),
    "C17-linemarker-eats-token": dict(
        what="a linemarker with flags also swallows the first token of the next line",
        checks=["C17", "C09"],
        edits=[(L, "            pos += len(m.group(0))\n\n        success(pp_line, pp_filename)", "            pos += len(m.group(0))\n            line_end = min(n, line_end + 2)\n\n        success(pp_line, pp_filename)")],
    ),
    "C12-scope-not-reset": dict(
        what="parse() does not reset the scope stack",
        checks=["C12"],
        edits=[(P, "        self._scope_stack = [dict()]\n        self.clex.input(text, filename)", "        self.clex.input(text, filename)")],
    ),
    "C12-scope-reset-keeps-file-scope": dict(
        what="parse() resets nested scopes but keeps the file scope of the previous parse",
        checks=["C12"],
        edits=[(P, "        self._scope_stack = [dict()]\n        self.clex.input(text, filename)", "        self._scope_stack = self._scope_stack[:1]\n        self.clex.input(text, filename)")],
    ),
    "C12-pending-tok": dict(
        what="lexer input() does not clear the pending #pragma string token",
        checks=["C12"],
        edits=[(L, "        self._line_start = 0\n        self._pending_tok: Optional[Token] = None\n        self._lineno = 1", "        self._line_start = 0\n        if not hasattr(self, \"_pending_tok\"):\n            self._pending_tok: Optional[Token] = None\n        self._lineno = 1")],
    ),
    "C12-lineno-kept": dict(
        what="lexer input() does not reset the line number",
        checks=["C12"],
        edits=[(L, "        self._pending_tok: Optional[Token] = None\n        self._lineno = 1", "        self._pending_tok: Optional[Token] = None\n        if not hasattr(self, \"_lineno\"):\n            self._lineno = 1")],
    ),
    "C12-generator-indent": dict(
        what="CGenerator.visit_Compound does not restore the indentation level for empty blocks",
        checks=["C12"],
        edits=[(G, "        if n.block_items:\n            s += \"\".join(self._generate_stmt(stmt) for stmt in n.block_items)\n        self.indent_level -= 2", "        if n.block_items:\n            s += \"\".join(self._generate_stmt(stmt) for stmt in n.block_items)\n            self.indent_level -= 2\n        else:\n            self.indent_level -= 1")],
    ),
    "C12-int-node-cache": dict(
        what="implicit-int IdentifierType nodes come from a module-level cache (shared between ASTs)",
        checks=["C12", "C15"],
        edits=[(P, "            if not isinstance(decl.type, c_ast.FuncDecl):\n                self._parse_error(\n                    \"Missing type in declaration\", decl.coord or self.clex.filename\n                )\n            typ.type = c_ast.IdentifierType([\"int\"], coord=decl.coord)", "            if not isinstance(decl.type, c_ast.FuncDecl):\n                self._parse_error(\n                    \"Missing type in declaration\", decl.coord or self.clex.filename\n                )\n            typ.type = _INT_CACHE.setdefault(str(decl.coord), c_ast.IdentifierType([\"int\"], coord=decl.coord))"),
               (P, "_ASSIGNMENT_OPS = {", "_INT_CACHE: Dict[str, Any] = {}\n\n_ASSIGNMENT_OPS = {")],
    ),
    "C12-tokens-not-reset": dict(
        what="parse() keeps the token stream of the previous parse when that one ended in an error",
        checks=["C12"],
        edits=[(P, "        self._tokens = _TokenStream(self.clex)\n\n        ast = self._parse_translation_unit_or_empty()", "        if self._tokens.peek() is None:\n            self._tokens = _TokenStream(self.clex)\n\n        ast = self._parse_translation_unit_or_empty()")],
    ),
    "C13-shared-scope-stack": dict(
        what="scope stack shared at module level by all parsers and reset in place",
        checks=["C13"],
        edits=[(P, "        self._scope_stack: List[Dict[str, bool]] = [dict()]\n        self._tokens: _TokenStream = _TokenStream(self.clex)\n\n    def parse(", "        self._scope_stack: List[Dict[str, bool]] = _SHARED_SCOPES\n        self._tokens: _TokenStream = _TokenStream(self.clex)\n\n    def parse("),
               (P, "        self._scope_stack = [dict()]\n        self.clex.input(text, filename)", "        del self._scope_stack[1:]\n        self._scope_stack[0].clear()\n        self.clex.input(text, filename)"),
               (P, "_ASSIGNMENT_OPS = {", "_SHARED_SCOPES: List[Dict[str, bool]] = [dict()]\n\n_ASSIGNMENT_OPS = {")],
    ),
    "C13-typedef-memo": dict(
        what="module-level memo of 'is this name a type' answers, cleared at the start of every parse",
        checks=["C13"],
        edits=[(P, '        """Is *name* a typedef-name in the current scope?"""\n        for scope in reversed(self._scope_stack):\n            # If name is an identifier in this scope it shadows typedefs in\n            # higher scopes.\n            if name in scope:\n                return scope[name]\n        return False', '        """Is *name* a typedef-name in the current scope?"""\n        key = (name, len(self._scope_stack), tuple(len(s) for s in self._scope_stack))\n        if key in _TYPE_MEMO:\n            return _TYPE_MEMO[key]\n        for scope in reversed(self._scope_stack):\n            if name in scope:\n                _TYPE_MEMO[key] = scope[name]\n                return scope[name]\n        _TYPE_MEMO[key] = False\n        return False'),
               (P, "        self._scope_stack = [dict()]\n        self.clex.input(text, filename)", "        self._scope_stack = [dict()]\n        _TYPE_MEMO.clear()\n        self.clex.input(text, filename)"),
               (P, "_ASSIGNMENT_OPS = {", "_TYPE_MEMO: Dict[Any, bool] = {}\n\n_ASSIGNMENT_OPS = {")],
    ),
    "C13-generator-indent-class": dict(
        what="CGenerator keeps its indentation level in a class attribute shared by all generators",
        checks=["C13"],
        edits=[(G, "        self.indent_level = 0\n        self.reduce_parentheses = reduce_parentheses", "        CGenerator.indent_level = 0\n        self.reduce_parentheses = reduce_parentheses"),
               (G, "        self.indent_level += 2\n        if n.block_items:", "        CGenerator.indent_level += 2\n        if n.block_items:"),
               (G, "            s += \"\".join(self._generate_stmt(stmt) for stmt in n.block_items)\n        self.indent_level -= 2", "            s += \"\".join(self._generate_stmt(stmt) for stmt in n.block_items)\n        CGenerator.indent_level -= 2")],
    ),
    "C13-lexer-filename-global": dict(
        what="the current file name of #line directives is kept in a module-level variable",
        checks=["C13"],
        edits=[(L, "                if pp_filename is not None:\n                    self._filename = pp_filename", "                if pp_filename is not None:\n                    global _CURRENT_FILE\n                    _CURRENT_FILE = pp_filename\n                    self._filename = pp_filename"),
               (L, "        tok = Token(tok_type, value, self._lineno, column, self._filename)", "        tok = Token(tok_type, value, self._lineno, column, _CURRENT_FILE or self._filename)"),
               (L, "    def _init_state(self) -> None:\n        self._lexdata = \"\"", "    def _init_state(self) -> None:\n        global _CURRENT_FILE\n        _CURRENT_FILE = None\n        self._lexdata = \"\""),
               (L, "##\n## Reserved keywords\n##", "_CURRENT_FILE = None\n\n##\n## Reserved keywords\n##")],
    ),
    "C11-file-from-lexer": dict(
        what="Coord.file read from the lexer state when the node is built (after look-ahead)",
        checks=["C11"],
        edits=[(P, "        filename = tok.filename if tok.filename is not None else self.clex.filename\n", "        filename = self.clex.filename\n")],
    ),
    "C11-column-zero-based": dict(
        what="token columns are 0-based",
        checks=["C11", "C09"],
        edits=[(L, "        column = pos - self._line_start + 1\n        tok = Token(", "        column = pos - self._line_start\n        tok = Token(")],
    ),
    "C11-field-coord-dot": dict(
        what="the member-name ID of a.b gets the coordinate of the '.' token",
        checks=["C11"],
        edits=[(P, "                field = c_ast.ID(name_tok.value, self._tok_coord(name_tok))", "                field = c_ast.ID(name_tok.value, self._tok_coord(op_tok))")],
    ),
    "C11-if-coord-else": dict(
        equivalent=True,  # still a token inside the construct / no observable change: the property allows it
        what="an if-else statement takes the coordinate of the token after 'else'",
        checks=["C11"],
        edits=[(P, "                if self._accept(\"ELSE\"):\n                    else_stmt = self._parse_pragmacomp_or_statement()\n                    return c_ast.If(cond, then_stmt, else_stmt, self._tok_coord(tok))", "                if self._accept(\"ELSE\"):\n                    else_stmt = self._parse_pragmacomp_or_statement()\n                    return c_ast.If(cond, then_stmt, else_stmt, else_stmt.coord)")],
    ),
    "C11-cast-coord-operand": dict(
        equivalent=True,  # still a token inside the construct / no observable change: the property allows it
        what="a Cast node takes the coordinate of its operand instead of the '(' that opens it",
        checks=["C11"],
        edits=[(P, "                return c_ast.Cast(typ, expr, self._tok_coord(lparen_tok))", "                return c_ast.Cast(typ, expr, expr.coord)")],
    ),
    "C11-binop-coord-right": dict(
        equivalent=True,  # still a token inside the construct / no observable change: the property allows it
        what="BinaryOp nodes take the coordinate of their right operand",
        checks=["C11"],
        edits=[(P, "            lhs = c_ast.BinaryOp(op, lhs, rhs, lhs.coord)", "            lhs = c_ast.BinaryOp(op, lhs, rhs, rhs.coord)")],
    ),
    "C11-lexer-error-column": dict(
        what="illegal-character errors report the column after the character",
        checks=["C11"],
        edits=[(L, "    def _error(self, msg: str, pos: int) -> None:\n        column = pos - self._line_start + 1", "    def _error(self, msg: str, pos: int) -> None:\n        column = pos - self._line_start + 2")],
    ),
    "C11-parse-error-prev-token": dict(
        what="'before: X' parse errors are located at the line of X but column 1",
        checks=["C11"],
        edits=[(P, "        if tok.type != token_type:\n            self._parse_error(f\"before: {tok.value}\", self._tok_coord(tok))", "        if tok.type != token_type:\n            self._parse_error(f\"before: {tok.value}\", self._coord(tok.lineno, 1))")],
    ),
    "C11-decl-coord-none-for-arrays": dict(
        what="array declarators lose their coordinate (ArrayDecl built without coord) so Decl.coord is None",
        checks=["C11"],
        edits=[(P, "            return c_ast.ArrayDecl(\n                type=base_type, dim=dim, dim_quals=dim_quals, coord=coord\n            )", "            return c_ast.ArrayDecl(\n                type=base_type, dim=dim, dim_quals=dim_quals, coord=None\n            )")],
    ),
    "C11-line-after-pragma": dict(
        equivalent=True,  # still a token inside the construct / no observable change: the property allows it
        what="a #pragma line without text does not count its newline",
        checks=["C11", "C09"],
        edits=[(L, "        if pos > start:\n            toks.append(self._make_token(\"PPPRAGMASTR\", text[start:pos], start))\n        if pos < n and text[pos] == \"\\n\":\n            self._lineno += 1", "        if pos > start:\n            toks.append(self._make_token(\"PPPRAGMASTR\", text[start:pos], start))\n        if pos < n and text[pos] == \"\\n\" and pos > start:\n            self._lineno += 1")],
    ),
    "C16-double-typename-parse": dict(
        what="'( type-name )' is speculatively parsed twice at the cast level",
        checks=["C16"],
        edits=[(P, "    def _parse_cast_expression(self) -> c_ast.Node:\n        result = self._try_parse_paren_type_name()", "    def _parse_cast_expression(self) -> c_ast.Node:\n        mark0 = self._mark()\n        self._try_parse_paren_type_name()\n        self._reset(mark0)\n        result = self._try_parse_paren_type_name()")],
    ),
    "C16-reset-relex": dict(
        what="_TokenStream.peek(k) rescans the buffer from the start (quadratic)",
        checks=["C16"],
        edits=[(P, "        self._fill(k)\n        return self._buffer[self._index + k - 1]", "        self._fill(k)\n        return [t for t in self._buffer][self._index + k - 1]")],
    ),
    "C16-scope-lookup-copy": dict(
        what="_is_type_in_scope walks a merged copy of all scopes on every identifier",
        checks=["C16"],
        edits=[(P, "        for scope in reversed(self._scope_stack):\n            # If name is an identifier in this scope it shadows typedefs in\n            # higher scopes.\n            if name in scope:\n                return scope[name]\n        return False", "        merged = {}\n        for scope in self._scope_stack:\n            merged.update(scope)\n        return merged.get(name, False)")],
    ),
    "C16-declarator-scan-to-end": dict(
        what="declarator look-ahead scans to the end of the enclosing parentheses list for every declarator",
        checks=["C16"],
        edits=[(P, "    def _peek_declarator_name_info(self) -> Tuple[Optional[str], bool]:\n        mark = self._mark()", "    def _peek_declarator_name_info(self) -> Tuple[Optional[str], bool]:\n        mark = self._mark()\n        k = 1\n        while self._peek(k) is not None and self._peek(k).type != \"SEMI\":\n            k += 1")],
    ),
    "C16-escape-regex": dict(
        what="the decimal escape in character constants loses its look-ahead (ambiguous \\d+ again)",
        checks=["C16"],
        edits=[(L, '_decimal_escape = r"""(\\d+)(?!\\d)"""', '_decimal_escape = r"""(\\d+)"""')],
    ),
    "C04-rbrace-no-pop": dict(
        what="the scope opened for a block is not popped at '}' when it declared nothing",
        checks=["C04"],
        edits=[(P, "        if len(self._scope_stack) > 1:\n            self._scope_stack.pop()", "        if len(self._scope_stack) > 1 and not self._scope_stack[-1]:\n            self._scope_stack.pop()")],
    ),
    "C04-pop-keeps-typedefs": dict(
        what="typedef names declared in a block survive the block (merged into the enclosing scope at '}')",
        checks=["C04"],
        edits=[(P, "        if len(self._scope_stack) > 1:\n            self._scope_stack.pop()", "        if len(self._scope_stack) > 1:\n            inner = self._scope_stack.pop()\n            for k, v in inner.items():\n                if v:\n                    self._scope_stack[-1].setdefault(k, v)")],
    ),
    "C04-lookup-outermost-first": dict(
        what="_is_type_in_scope searches the outermost scope first",
        checks=["C04"],
        edits=[(P, "        for scope in reversed(self._scope_stack):\n            # If name is an identifier", "        for scope in self._scope_stack:\n            # If name is an identifier")],
    ),
    "C04-add-identifier-file-scope": dict(
        what="object names are recorded in the file scope",
        checks=["C04"],
        edits=[(P, "        self._scope_stack[-1][name] = False", "        self._scope_stack[0][name] = False")],
    ),
    "C04-params-not-registered": dict(
        what="parameter names of a function definition are not entered into the body scope",
        checks=["C04"],
        edits=[(P, "                    if name:\n                        self._add_identifier(name, param.coord)", "                    if name and False:\n                        self._add_identifier(name, param.coord)")],
    ),
    "C04-members-registered": dict(
        what="struct members are entered into the ordinary-identifier namespace",
        checks=["C04"],
        edits=[(P, "            self._expect(\"SEMI\")\n            return self._build_declarations(spec=spec, decls=decls)", "            self._expect(\"SEMI\")\n            decls_built = self._build_declarations(spec=spec, decls=decls)\n            for d in decls_built:\n                if getattr(d, \"name\", None):\n                    self._scope_stack[-2 if len(self._scope_stack) > 1 else -1][d.name] = False\n            return decls_built")],
    ),
    "C04-proto-params-registered": dict(
        what="prototype-only parameter names are entered into the enclosing scope",
        checks=["C04"],
        edits=[(P, "        if self._peek_type() == \"LBRACE\":\n            if func.args is not None:", "        if True:\n            if func.args is not None:")],
    ),
    "C04-tags-registered": dict(
        what="struct tags are entered into the ordinary-identifier namespace as non-types",
        checks=["C04"],
        edits=[(P, "        if self._peek_type() in {\"ID\", \"TYPEID\"}:\n            name_tok = self._advance()\n            if self._peek_type() == \"LBRACE\":\n                self._advance()\n                if self._accept(\"RBRACE\"):", "        if self._peek_type() in {\"ID\", \"TYPEID\"}:\n            name_tok = self._advance()\n            self._scope_stack[-1].setdefault(name_tok.value, False)\n            if self._peek_type() == \"LBRACE\":\n                self._advance()\n                if self._accept(\"RBRACE\"):")],
    ),
    "C04-typedef-redeclare-as-object-silently": dict(
        what="a typedef name stays a type after an inner object declaration with an initializer",
        checks=["C04"],
        edits=[(P, "            if typedef_namespace:\n                if is_typedef:\n                    self._add_typedef_name(fixed_decl.name, fixed_decl.coord)\n                else:\n                    self._add_identifier(fixed_decl.name, fixed_decl.coord)", "            if typedef_namespace:\n                if is_typedef:\n                    self._add_typedef_name(fixed_decl.name, fixed_decl.coord)\n                elif decl.get(\"init\") is None or not self._is_type_in_scope(fixed_decl.name):\n                    self._add_identifier(fixed_decl.name, fixed_decl.coord)")],
    ),
    "C01-alignof-first-set": dict(
        what="_Alignof dropped from the set of tokens that can start an expression",
        checks=["C01"],
        edits=[(P, '    "SIZEOF",\n    "_ALIGNOF",\n    "OFFSETOF",', '    "SIZEOF",\n    "OFFSETOF",')],
    ),
    "C01-enum-trailing-comma": dict(
        what="a trailing comma in an enumerator list is rejected",
        checks=["C01"],
        edits=[(P, "        while self._accept(\"COMMA\"):\n            if self._peek_type() == \"RBRACE\":\n                break\n            enum = self._parse_enumerator()", "        while self._accept(\"COMMA\"):\n            enum = self._parse_enumerator()")],
    ),
    "C01-member-typeid": dict(
        what="a member name spelled like a typedef name is rejected after '.' / '->'",
        checks=["C01"],
        edits=[(P, '                if name_tok.type not in {"ID", "TYPEID"}:\n                    self._parse_error(\n                        "Invalid struct reference"', '                if name_tok.type not in {"ID"}:\n                    self._parse_error(\n                        "Invalid struct reference"')],
    ),
    "C01-knr-branch": dict(
        what="K&R parameter declarations between declarator and body are no longer accepted",
        checks=["C01"],
        edits=[(P, "        if self._peek_type() == \"LBRACE\" or self._starts_declaration():\n            param_decls = None\n            if self._starts_declaration():", "        if self._peek_type() == \"LBRACE\":\n            param_decls = None\n            if self._starts_declaration():")],
    ),
    "C01-static-in-array-param": dict(
        what="'static' inside an array declarator after qualifiers ([const static n]) is rejected",
        checks=["C01"],
        edits=[(P, "            if self._accept(\"STATIC\"):\n                dim_quals = dim_quals + [\"static\"]", "            if False and self._accept(\"STATIC\"):\n                dim_quals = dim_quals + [\"static\"]")],
    ),
    "C01-for-decl-storage": dict(
        what="a for-init declaration starting with a storage class (register/auto) is not recognised",
        checks=["C01"],
        edits=[(P, "                if self._starts_declaration():\n                    decls = self._parse_declaration()\n                    init = c_ast.DeclList", "                if self._starts_declaration() and self._peek_type() not in {\"REGISTER\", \"AUTO\"}:\n                    decls = self._parse_declaration()\n                    init = c_ast.DeclList")],
    ),
    "C08-bitsize-zero": dict(
        what="CGenerator drops a bit-field width of 0",
        checks=["C08"],
        edits=[(G, "        if n.bitsize:\n            s += \" : \" + self.visit(n.bitsize)", "        if n.bitsize and self.visit(n.bitsize) != \"0\":\n            s += \" : \" + self.visit(n.bitsize)")],
    ),
    "C08-funcspec-dropped": dict(
        what="CGenerator drops function specifiers (inline, _Noreturn)",
        checks=["C08"],
        edits=[(G, "        if n.funcspec:\n            s = \" \".join(n.funcspec) + \" \"", "        if n.funcspec and False:\n            s = \" \".join(n.funcspec) + \" \"")],
    ),
    "C08-dimquals-dropped": dict(
        what="CGenerator drops qualifiers/static inside array declarators",
        checks=["C08"],
        edits=[(G, "                            if modifier.dim_quals:\n                                nstr += \" \".join(modifier.dim_quals) + \" \"", "                            if modifier.dim_quals and False:\n                                nstr += \" \".join(modifier.dim_quals) + \" \"")],
    ),
    "C08-ellipsis-dropped": dict(
        what="CGenerator prints nothing for '...'",
        checks=["C08"],
        edits=[(G, "    def visit_EllipsisParam(self, n: c_ast.EllipsisParam) -> str:\n        return \"...\"", "    def visit_EllipsisParam(self, n: c_ast.EllipsisParam) -> str:\n        return \"\"")],
    ),
    "C08-enum-values-dropped": dict(
        what="CGenerator omits explicit enumerator values",
        checks=["C08"],
        edits=[(G, "        if not n.value:\n            return", "        if True:\n            return")],
    ),
    "C08-reduce-parens-right-assoc": dict(
        what="reduce_parentheses drops parentheses around a right operand of equal precedence (a - (b - c))",
        checks=["C08", "C07"],
        edits=[(G, "                    and self.precedence_map[d.op] > self.precedence_map[n.op]", "                    and self.precedence_map[d.op] >= self.precedence_map[n.op]")],
    ),
    "C08-volatile-ptr-qual": dict(
        what="CGenerator drops qualifiers of pointer declarators",
        checks=["C08"],
        edits=[(G, "                            if modifier.quals:\n                                quals = \" \".join(modifier.quals)", "                            if modifier.quals and modifier.quals != [\"volatile\"]:\n                                quals = \" \".join(modifier.quals)")],
    ),
    "C08-unsigned-char-order": dict(
        what="CGenerator sorts the words of a type specifier (unsigned char -> char unsigned: harmless) but drops duplicates (long long -> long)",
        checks=["C08"],
        edits=[(G, "    def visit_IdentifierType(self, n: c_ast.IdentifierType) -> str:\n        return \" \".join(n.names)", "    def visit_IdentifierType(self, n: c_ast.IdentifierType) -> str:\n        return \" \".join(dict.fromkeys(n.names))")],
    ),
}
