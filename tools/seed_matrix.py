#!/venv/bin/python
"""tools/seed_matrix.py [--jobs N] [--only C07-a,C12-b] [--nproc K] [--out MATRIX_seed2.json]

Re-runs every seeded change under seeded/ against the checks as they are now:
for each seed a scratch copy of /repo gets patch.diff applied, the repository's
suite must pass, demo.py must fail with the patch (and pass without), and the
quick tier of the property's own check plus every other check recorded for the
seed in meta.json is run against the copy.  Results go to seeded/MATRIX.json
(and into the 'final' key of each meta.json).  Nothing is applied to /repo.
"""
import json
import os
import re
import shutil
import subprocess
import sys
import tempfile
import time
from concurrent.futures import ThreadPoolExecutor

HERE = os.path.dirname(os.path.dirname(os.path.abspath(__file__)))


def sh(cmd, **kw):
    return subprocess.run(cmd, capture_output=True, text=True, **kw)


def make_copy():
    d = tempfile.mkdtemp(prefix="seedm_")
    for name in ("pycparser", "tests", "examples", "utils", "setup.py", "setup.cfg", "pyproject.toml", "README.rst"):
        src = os.path.join("/repo", name)
        if os.path.isdir(src):
            shutil.copytree(src, os.path.join(d, name), ignore=shutil.ignore_patterns("__pycache__", "*.pyc"))
        elif os.path.exists(src):
            shutil.copy(src, d)
    sh(["git", "init", "-q"], cwd=d)
    return d


def run_demo(d, demo_src):
    path = os.path.join(d, "_demo.py")
    src = re.sub(r"/tmp/wt[0-9a-zA-Z_\-]*/C\d\d(-[a-z])?", d, demo_src)
    with open(path, "w") as f:
        f.write(src)
    try:
        p = sh(["/venv/bin/python", path], cwd=d, env=dict(os.environ, PYTHONPATH=d, PYTHONDONTWRITEBYTECODE="1"), timeout=900)
        return p.returncode
    except subprocess.TimeoutExpired:
        return "timeout"


def one(sid, nproc):
    sdir = os.path.join(HERE, "seeded", sid)
    meta = json.load(open(os.path.join(sdir, "meta.json")))
    prop = meta["property"]
    checks = [prop] + [c for c in meta.get("checks", {}) if c != prop]
    d = make_copy()
    out = dict(seed=sid, property=prop)
    try:
        demo_src = open(os.path.join(sdir, "demo.py")).read()
        out["demo_without_patch"] = run_demo(d, demo_src)
        ap = sh(["git", "apply", "--whitespace=nowarn", os.path.join(sdir, "patch.diff")], cwd=d)
        if ap.returncode != 0:
            out["error"] = "patch does not apply: " + ap.stderr[:200]
            return out
        t = sh(["/venv/bin/python", "-m", "pytest", "-q", "-p", "no:cacheprovider", "tests"], cwd=d, env=dict(os.environ, PYTHONPATH=d, PYTHONDONTWRITEBYTECODE="1"))
        out["suite_exit"] = t.returncode
        out["demo_with_patch"] = run_demo(d, demo_src)
        out["confirmed"] = bool(t.returncode == 0 and out["demo_with_patch"] not in (0, "timeout") and out["demo_without_patch"] == 0)
        out["checks"] = {}
        for cid in checks:
            env = dict(os.environ, PYCPARSER_REPO=d, VERIF_EVIDENCE_DIR=os.path.join(d, "_evidence"), VERIF_NPROC=str(nproc))
            t0 = time.time()
            try:
                p = sh([os.path.join(HERE, "check"), cid, "--tier", "quick"], cwd=HERE, env=env, timeout=2400)
                viol = [l for l in p.stdout.splitlines() if l.startswith("VIOLATION")]
                first = [l for l in p.stdout.splitlines() if l.startswith("violation ")][:1]
                out["checks"][cid] = dict(exit=p.returncode, violations=len(viol), wall_s=round(time.time() - t0, 1), caught=bool(p.returncode == 1 and viol), first=first[0][:120] if first else "")
            except subprocess.TimeoutExpired:
                out["checks"][cid] = dict(exit=None, violations=0, wall_s=2400, caught=False, first="did not finish in 40 min")
        return out
    finally:
        shutil.rmtree(d, ignore_errors=True)


def main():
    jobs = int(sys.argv[sys.argv.index("--jobs") + 1]) if "--jobs" in sys.argv else 3
    nproc = int(sys.argv[sys.argv.index("--nproc") + 1]) if "--nproc" in sys.argv else 5
    sids = sorted(x for x in os.listdir(os.path.join(HERE, "seeded")) if os.path.isdir(os.path.join(HERE, "seeded", x)))
    if "--only" in sys.argv:
        only = set(sys.argv[sys.argv.index("--only") + 1].split(","))
        sids = [s for s in sids if s in only]
    mname = sys.argv[sys.argv.index("--out") + 1] if "--out" in sys.argv else "MATRIX.json"
    mpath = os.path.join(HERE, "seeded", mname)
    matrix = json.load(open(mpath)) if os.path.exists(mpath) else {}
    with ThreadPoolExecutor(jobs) as ex:
        for r in ex.map(lambda s: one(s, nproc), sids):
            matrix[r["seed"]] = r
            own = r.get("checks", {}).get(r["property"], {})
            others = [c for c, v in r.get("checks", {}).items() if v.get("caught") and c != r["property"]]
            print("%-6s confirmed=%s own=%s %s%s" % (r["seed"], r.get("confirmed"), own.get("caught"), ("also " + ",".join(others)) if others else "", (" ERROR " + r["error"]) if "error" in r else ""), flush=True)
            json.dump(matrix, open(mpath, "w"), indent=1, sort_keys=True)
            if mname != "MATRIX.json":
                continue
            mp = os.path.join(HERE, "seeded", r["seed"], "meta.json")
            m = json.load(open(mp))
            m["final"] = dict(confirmed=r.get("confirmed"), checks={c: dict(caught=v["caught"], violations=v["violations"], wall_s=v["wall_s"]) for c, v in r.get("checks", {}).items()})
            json.dump(m, open(mp, "w"), indent=1)


if __name__ == "__main__":
    main()
