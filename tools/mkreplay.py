#!/venv/bin/python
"""tools/mkreplay.py <PROP> <subcheck> <known|regress> <name> <python-literal case>

Runs the case through the property's plain oracle and stores a replay file
with the observed signature (for 'known') or requires it to pass ('regress')."""
import ast
import json
import os
import sys

HERE = os.path.dirname(os.path.dirname(os.path.abspath(__file__)))
sys.path.insert(0, HERE)
sys.path.insert(0, os.environ.get("PYCPARSER_REPO", "/repo"))
import importlib

from vlib import runner

prop, sub, kind, name, lit = sys.argv[1:6]
case = ast.literal_eval(lit)
mod = importlib.import_module("vlib.props." + prop.lower())
got = runner.run_replay(mod, dict(subcheck=sub, case=case))
body = dict(property=prop, subcheck=sub, case_repr=repr(case), text=None, detail=None, sig=None)
if kind == "known":
    if got is None:
        sys.exit("case passes - not a finding")
    body.update(text=got["text"], detail=got["detail"], sig=got["sig"])
else:
    if got is not None:
        sys.exit("case fails: %s %s" % (got["sig"], got["detail"]))
    body.update(text=str(case)[:400], detail="must pass", sig="pass")
path = os.path.join(HERE, "replays", kind, "%s-%s.json" % (prop, name))
json.dump(body, open(path, "w"), indent=1)
print(path, body["sig"])
