#!/venv/bin/python
"""tools/mkfuzzcorpus.py [runs-per-campaign] [campaigns]

Rebuilds corpus/fuzz_c06.json: runs coverage-guided campaigns from an empty
corpus and from the current committed one, takes the union of their corpora
and lets libFuzzer minimise it (-merge=1).  Scratch space is a temporary
directory that is removed at the end."""
import json
import multiprocessing
import os
import shutil
import subprocess
import sys
import tempfile

HERE = os.path.dirname(os.path.dirname(os.path.abspath(__file__)))
REPO = os.environ.get("PYCPARSER_REPO", "/repo")
sys.path.insert(0, HERE)
sys.path.insert(0, REPO)


def one(arg):
    from vlib.props import c06

    st = c06.fuzz_shard(arg)
    return dict(st.classes), [f["sig"] for f in st.failures]


def main():
    runs = int(sys.argv[1]) if len(sys.argv) > 1 else 300000
    n = int(sys.argv[2]) if len(sys.argv) > 2 else 10
    from vlib.fuzzdrive import atheris_path

    dep = atheris_path(HERE)
    tmp = tempfile.mkdtemp(prefix="mkfz_")
    try:
        os.environ["VERIF_FUZZ_KEEP"] = tmp
        jobs = [(i, 7000 + i, runs, i % 2 == 0, 64 if i % 4 < 2 else 160, HERE, REPO) for i in range(n)]
        with multiprocessing.get_context("fork").Pool(min(n, 10)) as pool:
            for classes, sigs in pool.imap_unordered(one, jobs):
                print({k: v for k, v in classes.items() if k.startswith("fuzz_")}, sigs)
        union = os.path.join(tmp, "union")
        os.mkdir(union)
        k = 0
        seen = set()
        cj = os.path.join(HERE, "corpus", "fuzz_c06.json")
        old = json.load(open(cj)) if os.path.exists(cj) else []
        for f in sorted(os.listdir(tmp)):
            if f.startswith("corpus_"):
                old += json.load(open(os.path.join(tmp, f)))
        for hx in old:
            if hx not in seen:
                seen.add(hx)
                open(os.path.join(union, "%06d" % k), "wb").write(bytes.fromhex(hx))
                k += 1
        out = os.path.join(tmp, "merged")
        os.mkdir(out)
        env = dict(os.environ, PYTHONPATH=os.pathsep.join([REPO, HERE, dep or ""]), PYTHONHASHSEED="0")
        p = subprocess.run([os.path.join(HERE, "vlib", "fuzz_parse.py"), out, union, "-merge=1", "-max_len=160", "-artifact_prefix=" + tmp + os.sep], cwd=HERE, env=env, capture_output=True)
        print(p.stderr.decode("latin-1")[-400:])
        merged = sorted(open(os.path.join(out, f), "rb").read().hex() for f in os.listdir(out))
        print("union", k, "merged", len(merged), "bytes", sum(len(x) // 2 for x in merged))
        json.dump(merged, open(cj, "w"), indent=0)
    finally:
        shutil.rmtree(tmp, ignore_errors=True)


if __name__ == "__main__":
    main()
