#!/venv/bin/python
"""Development aid (not a registered check): bulk-compare model expectations
with the parser using a plain PRNG, bucket the mismatches."""
import collections, os, random, sys
HERE = os.path.dirname(os.path.dirname(os.path.abspath(__file__)))
sys.path.insert(0, HERE); sys.path.insert(0, os.environ.get("PYCPARSER_REPO", "/repo"))
from multiprocessing import Pool
from vlib import cmodel as M, gen
from vlib.choose import RandomChooser
from vlib.astdump import dump, first_difference
from pycparser import c_parser

QUAR = set(sys.argv[3].split(",") if len(sys.argv) > 3 else ["stmt.static_assert_in_block", "decl.register_on_unnamed_parameter"])

def one(seed):
    g = gen.G(RandomChooser(random.Random(seed)), quarantine=QUAR)
    tu = M.freshen(gen.gen_unit(g))
    mode = ["min", "red", "full"][seed % 3]
    rr = random.Random(seed + 1)
    r = M.Renderer(mode, paren=lambda n: rr.random() < 0.3)
    r.unit(tu)
    src = gen.PRELUDE + "\n" + M.text_of(r.toks)
    try:
        ast = c_parser.CParser().parse(src, "f.c")
    except Exception as e:
        return ("ERR", type(e).__name__ + ":" + str(e).split(": ", 1)[-1][:40], src + "   <<" + str(e)[:30])
    got = M.normalize(dump(ast))
    got = ("FileAST", ("ext", got[1][1][gen.PRELUDE_NEXT:]))
    exp = M.normalize(M.Expect().unit(tu))
    if got != exp:
        fd = first_difference(got, exp)
        return ("DIFF", tuple(str(x) for x in fd[-4:]), src)
    return None

if __name__ == "__main__":
    n = int(sys.argv[1]); base = int(sys.argv[2]) if len(sys.argv) > 2 else 0
    with Pool(16) as p:
        res = [x for x in p.map(one, range(base, base + n), chunksize=50) if x]
    print(len(res), "failures of", n)
    b = collections.defaultdict(list)
    for k, d, s in res:
        b[(k, d)].append(s)
    for k, v in sorted(b.items(), key=lambda kv: -len(kv[1]))[:30]:
        print(len(v), k, "\n      ", repr(min(v, key=len))[:700])
