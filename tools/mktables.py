#!/venv/bin/python
"""Regenerates the machine-written tables of DESIGN.md (between the
<!-- BEGIN x --> / <!-- END x --> markers): seeded changes, quick evidence."""
import glob
import json
import os
import re

HERE = os.path.dirname(os.path.dirname(os.path.abspath(__file__)))


def seeded_table():
    rows = ["| seed | property | what the change does | what it needs to manifest | suite | demo | caught by (quick tier) |", "|---|---|---|---|---|---|---|"]
    for mp in sorted(glob.glob(os.path.join(HERE, "seeded", "*", "meta.json"))):
        m = json.load(open(mp))
        caught = ", ".join("%s%s" % (c, "" if r["caught"] else " (missed)") for c, r in sorted(m.get("checks", {}).items()))
        hist = m.get("history", "")
        rows.append(
            "| %s | %s | %s | %s | %s | %s | %s%s |"
            % (
                m["seed"], m["property"], m.get("what", "").replace("|", "\\|"), m.get("needs", "").replace("|", "\\|"),
                "passes" if m.get("suite_with_patch", {}).get("exit") == 0 else "FAILS",
                "fails with / passes without" if m.get("confirmed") else "NOT CONFIRMED",
                caught, (" - " + hist) if hist else "",
            )
        )  # fmt: skip
    return "\n".join(rows)


def evidence_table():
    rows = ["| id | evaluations | distinct non-trivial | exhaustive core | wall (s, loaded machine) |", "|---|---|---|---|---|"]
    for ep in sorted(glob.glob(os.path.join(HERE, "evidence", "C*.json"))):
        e = json.load(open(ep))
        c = e["coverage"]
        rows.append("| %s | %d | %d | %s | %.0f |" % (e["property_id"], c["evaluations"], c["distinct_nontrivial"], str(c.get("exhaustive_bounds", "-"))[:160], e["wall_s"]))
    return "\n".join(rows)


def main():
    p = os.path.join(HERE, "DESIGN.md")
    s = open(p).read()
    for name, fn in (("SEEDED", seeded_table), ("EVIDENCE", evidence_table)):
        b, e = "<!-- BEGIN %s -->" % name, "<!-- END %s -->" % name
        if b in s and e in s:
            s = s[: s.index(b) + len(b)] + "\n" + fn() + "\n" + s[s.index(e) :]
    open(p, "w").write(s)


if __name__ == "__main__":
    main()
