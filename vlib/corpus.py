"""The repository's C corpus, preprocessed at run time (DESIGN.md 2.5)."""
import glob
import os
import subprocess

from pycparser import c_parser

_cache = {}


def _repo():
    return os.environ.get("PYCPARSER_REPO", "/repo")


def corpus(big=False):
    """[(name, text)] of corpus programs the tree parses.  Files the tree
    does not parse are listed under skipped()."""
    key = ("corpus", big)
    if key in _cache:
        return _cache[key]
    repo = _repo()
    out = []
    skipped = []
    files = sorted(glob.glob(os.path.join(repo, "examples/c_files/*.c")) + glob.glob(os.path.join(repo, "tests/c_files/*.c")) + glob.glob(os.path.join(repo, "utils/internal/*.c")))
    inc = os.path.join(repo, "utils/fake_libc_include")
    for f in files:
        for std in ("c99", "c11"):
            try:
                p = subprocess.run(["cpp", "-nostdinc", "-std=" + std, "-I", inc, "-I", os.path.dirname(f), f], capture_output=True, text=True, timeout=60)
            except Exception as e:  # noqa: BLE001
                skipped.append((os.path.relpath(f, repo), std, "cpp: %r" % e))
                continue
            if p.returncode != 0:
                skipped.append((os.path.relpath(f, repo), std, "cpp exit %d" % p.returncode))
                continue
            name = "%s@%s" % (os.path.relpath(f, repo), std)
            try:
                c_parser.CParser().parse(p.stdout, f)
            except Exception as e:  # noqa: BLE001
                skipped.append((name, std, "parse: %s" % type(e).__name__))
                continue
            out.append((name, p.stdout))
    if big:
        for f in sorted(glob.glob(os.path.join(repo, "utils/benchmark/inputs/*.ppout"))):
            text = open(f, encoding="utf-8", errors="replace").read()
            try:
                c_parser.CParser().parse(text, f)
            except Exception as e:  # noqa: BLE001
                skipped.append((os.path.relpath(f, repo), "", "parse: %s" % type(e).__name__))
                continue
            out.append((os.path.relpath(f, repo), text))
    # de-duplicate identical texts (c99/c11 usually agree)
    seen = set()
    uniq = []
    for n, t in out:
        if t in seen:
            continue
        seen.add(t)
        uniq.append((n, t))
    _cache[key] = uniq
    _cache[("skipped", big)] = skipped
    return uniq


def skipped(big=False):
    corpus(big)
    return _cache[("skipped", big)]
