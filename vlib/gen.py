"""Generators of model values (DESIGN.md 2.3).  Every decision goes through a
Chooser.  Programs are valid by construction w.r.t. C99 Annex A (+ the C11
productions pycparser documents) under the typedef-name rule; they are
usually semantically meaningless, which is what a parser must accept.

Every optional grammar feature that a known finding quarantines is guarded by
G.on(feature); the number of times a quarantined feature would have been
drawn is counted in G.excluded.
"""
import collections

from . import cmodel as M

PRELUDE = "typedef int T0; typedef struct S T1;"
PRELUDE_NEXT = 2  # number of external declarations in PRELUDE

IDS = ["a", "b", "c", "x", "y", "z"]
MEMBERS = ["m", "T0", "next"]

INT_CONSTS = [
    ("1", "int"), ("0", "int"), ("2u", "unsigned int"), ("3UL", "unsigned long int"), ("4ll", "long long int"),
    ("5LLU", "unsigned long long int"), ("6lu", "unsigned long int"), ("0x1fL", "long int"), ("07", "int"), ("0b11", "int"),
    ("0XAu", "unsigned int"), ("9ull", "unsigned long long int"), ("8Ul", "unsigned long int"), ("10", "int"),
]  # fmt: skip
FLOAT_CONSTS = [
    ("1.5", "double"), ("2.f", "float"), (".5L", "long double"), ("1e3", "double"), ("0x1p3f", "float"), ("08.5", "double"), ("09e1f", "float"), ("0189.L", "long double"),
    ("0x1.8p-2", "double"), ("3E+2F", "float"), ("1.e-1l", "long double"), ("0x.8P1L", "long double"),
]  # fmt: skip
CHAR_CONSTS = [
    ("'x'", "char"), ("L'y'", "char"), ("'ab'", "int"), ("u8'z'", "char"), ("u'w'", "char"), ("U'v'", "char"),
    ("'\\n'", "char"), ("'\\''", "char"), ("'\\x41'", "char"), ("'\\\\'", "char"), ("'\"'", "char"), ("'ul'", "int"),
]  # fmt: skip
STRINGS = [
    ['"s"'], ['"s"', '"t"'], ['L"w"'], ['L"w"', 'L"v"'], ['u"q"'], ['U"r"', 'U"s"'], ['u8"e"'], ['"a\\"b"', '"c"'],
    ['""'], ['"/* no comment */"'], ['"// x"', '"#pragma"'], ['"\\\\"'], ['"a"', '""', '"b"'],
]  # fmt: skip

# Features guarded by G.on(): feature -> finding id in KNOWN_FINDINGS.txt.  A
# check passes the set of features it must not draw (quarantine); repaired
# defects are no longer listed here and are drawn freely.
FEATURES = {
    "stmt.static_assert_in_block": "F19",
    "decl.for_init_nonplain_later_declarator": "F21",
    "expr.comma_or_assignment_in_constant_position": "F25a",
    "decl.register_on_unnamed_parameter": "F31",
    "decl.alignas": "F29",  # C14 show() part only
    "stmt._Pragma_operator": "F29",  # C14 show() part only
    "decl.static_assert_in_struct": "F32",  # C08 only (no ';' regenerated)
    "decl.tag_body_with_multiple_declarators": "F27",  # C08
    "init.array_designator_identifier": "F26",  # C08
    "stmt.pragma_before_substatement": "F27a",  # C08
    "ext.implicit_int": "-",  # not C99: excluded from C01 only
    "lit.u8_char_constant": "-",  # C2x, accepted by pycparser as an extension: excluded from C01 only
}
ALL_FEATURES = list(FEATURES)


class G:
    """Generation context: chooser, quarantine set, fresh names, typedef scope."""

    def __init__(self, c, quarantine=(), max_nodes=400):
        self.c = c
        self.q = set(quarantine)
        self.excluded = collections.Counter()
        self.features = collections.Counter()
        self.k = 0
        self.typedefs = [["T0", "T1"]]  # stack of visible typedef-name lists
        self.budget = max_nodes
        self.odd_names = True
        self.used_words = set()
        self.open_tags = [[]]
        self.closed_tags = []

    def on(self, feature, p=None):
        """May the feature be drawn?  (p: probability, None = caller decides)"""
        if p is not None and not self.c.chance(p):
            return False
        if feature in self.q:
            self.excluded[feature] += 1
            return False
        self.features[feature] += 1
        return True

    # identifier spellings a lexer could confuse with something else: '$', a
    # leading underscore, keyword and literal-prefix look-alikes, a very long name
    ODD_NAMES = ["_%s", "$%s", "%s$", "L%s", "u8%s", "U%s", "int%s", "sizeof%s", "_Atomic%s", "if%s", "e%s", "x%sp1", "%s" + "q" * 120, "line%s", "pragma%s", "T0%s", "__%s"]

    # words that are keywords only in other dialects (C23, C++) or only as
    # macros of a header: ordinary identifiers in C99/C11; each used once
    NEAR_KEYWORDS = ["alignas", "alignof", "static_assert", "thread_local", "bool", "true", "false", "noreturn", "complex", "imaginary", "atomic",
                     "nullptr", "constexpr", "typeof", "asm", "_BOOL", "_atomic", "Int", "INT", "defined", "include", "define", "pragma", "line",
                     "class", "new", "this", "and", "or", "not", "try", "catch", "fortran", "near", "far", "main", "NULL", "va_list", "size_t"]  # fmt: skip

    def fresh(self, prefix="v"):
        self.k += 1
        if self.odd_names and self.c.chance(0.03):
            left = [w for w in self.NEAR_KEYWORDS if w not in self.used_words]
            if left:
                w = self.c.choice(left)
                self.used_words.add(w)
                return w
        name = "%s%d" % (prefix, self.k)
        if self.odd_names and self.c.chance(0.06):
            return self.c.choice(self.ODD_NAMES) % name
        return name

    def visible_typedefs(self):
        return [t for sc in self.typedefs for t in sc]

    def push(self):
        self.typedefs.append([])
        self.open_tags.append([])

    def pop(self):
        self.typedefs.pop()
        # tags defined in the scope that ends may be defined again elsewhere
        self.closed_tags.extend(self.open_tags.pop())

    def tag(self, prefix):
        """a tag name for a definition with a body: usually fresh; inside a function
        sometimes the name of a tag whose scope has ended (a different type now)"""
        if len(self.open_tags) > 1 and self.closed_tags and self.c.chance(0.25):
            cand = [t for t in self.closed_tags if t.startswith(prefix)]
            if cand:
                return self.c.choice(cand)
        name = self.fresh(prefix)
        if len(self.open_tags) > 1:
            self.open_tags[-1].append(name)
        return name

    def spend(self, n=1):
        self.budget -= n
        return self.budget > 0


# ---------------------------------------------------------------------------
# expressions
# ---------------------------------------------------------------------------
# C11 6.7.10: the message is any string literal (or a run of adjacent ones)
SASSERT_MSGS = [['"m"'], None, ['"a"', '"b"'], ['L"w"'], ['u8"a"', 'u8"b"'], ['U"x"', 'U""'], ['u"y"']]

def gen_leaf(g):
    c = g.c
    k = c.weighted([(4, "id"), (2, "int"), (1, "float"), (1, "char"), (1, "str")])
    if k == "id":
        return ("id", c.choice(IDS))
    if k == "int":
        v, t = c.choice(INT_CONSTS)
        return ("const", v, t)
    if k == "float":
        v, t = c.choice(FLOAT_CONSTS)
        return ("const", v, t)
    if k == "char":
        v, t = c.choice(CHAR_CONSTS)
        if v.startswith("u8'") and not g.on("lit.u8_char_constant"):
            v = "u" + v[2:]  # u8 character constants are C2x, not C11
        return ("const", v, t)
    return gen_string(g)


def gen_string(g):
    parts = list(g.c.choice(STRINGS))
    if len(parts) > 1 and parts[0].startswith("u8") and not g.on("lit.u8_concatenation"):
        parts = parts[:1]
    return ("str", parts)


def gen_expr(g, d):
    c = g.c
    if d <= 0 or not g.spend() or c.chance(0.12):
        return gen_leaf(g)
    sub = lambda: gen_expr(g, d - 1)  # noqa: E731
    k = c.weighted(
        [(6, "bin"), (2, "asg"), (2, "cond"), (3, "pre"), (2, "post"), (1, "sizeoft"), (2, "cast"), (2, "idx"), (2, "call"),
         (2, "mem"), (2, "comma"), (1, "alignof"), (1, "cl"), (1, "offsetof")]
    )  # fmt: skip
    if k == "bin":
        # favour operator-under-operator shapes
        op = c.choice(list(M.BIN))
        return ("bin", op, sub(), sub())
    if k == "asg":
        lhs = sub()
        if lhs[0] in ("asg", "comma") and not g.on("expr.assignment_lhs_is_assignment_or_comma"):
            lhs = gen_leaf(g)
        return ("asg", c.choice(M.ASG), lhs, sub())
    if k == "cond":
        return ("cond", sub(), sub(), sub())
    if k == "pre":
        op = c.choice(M.PRE)
        e = sub()
        if op == "sizeof" and e[0] == "cl" and not g.on("expr.sizeof_compound_literal"):
            e = ("id", "a")
        return ("pre", op, e)
    if k == "post":
        return ("post", c.choice(["++", "--"]), postfix_operand(g, sub()))
    if k == "sizeoft":
        return ("sizeoft", gen_typename(g, 2))
    if k == "alignof":
        return ("alignof", gen_typename(g, 2))
    if k == "cast":
        return ("cast", gen_typename(g, 2), sub())
    if k == "idx":
        return ("idx", postfix_operand(g, sub()), sub())
    if k == "call":
        return ("call", postfix_operand(g, sub()), [sub() for _ in range(c.int(0, 3))])
    if k == "mem":
        e = postfix_operand(g, sub())
        op = c.choice([".", "->"])
        if e[0] == "const" and not g.on("expr.member_of_constant"):
            e = ("id", "x")
        return ("mem", e, op, c.choice(MEMBERS))
    if k == "comma":
        return ("comma", [sub() for _ in range(c.int(2, 3))])
    if k == "cl":
        return ("cl", gen_typename(g, 1), gen_initlist(g, d - 1, allow_empty=False))
    if k == "offsetof":
        des = [c.choice(MEMBERS)]
        for _ in range(c.int(0, 2)):
            des.append((".", c.choice(MEMBERS)) if c.chance(0.5) else ("[", gen_expr(g, 1)))
        return ("offsetof", gen_typename(g, 0), des)
    raise AssertionError(k)


def postfix_operand(g, e):
    if e[0] == "cl" and not g.on("expr.postfix_after_compound_literal"):
        return ("id", "y")
    return e


def const_expr(g, d):
    """an expression for a constant-expression position (conditional level)"""
    e = gen_expr(g, d)
    if e[0] in ("comma", "asg") and not g.on("expr.comma_or_assignment_in_constant_position"):
        return ("bin", "+", ("id", "a"), ("const", "1", "int"))
    return e


def asg_expr(g, d):
    """an expression for an assignment-expression position whose generator
    rendering is known to lose parentheses around comma (array bounds)"""
    e = gen_expr(g, d)
    if e[0] == "comma" and not g.on("expr.comma_or_assignment_in_constant_position"):
        return ("id", "b")
    return e


# ---------------------------------------------------------------------------
# types
# ---------------------------------------------------------------------------
BASE_WORDS = [
    ["int"], ["char"], ["unsigned", "long"], ["long", "long", "unsigned", "int"], ["double", "_Complex"], ["_Bool"],
    ["signed", "char"], ["void"], ["short"], ["float"], ["long", "double"], ["unsigned"], ["__int128"],
]  # fmt: skip


def fix_atomic_last(quals, safe):
    """C11 6.7.2.4p4: '_Atomic (' always starts the specifier form, so a bare
    _Atomic qualifier must not be directly followed by '('."""
    quals = list(quals)
    if quals and quals[-1] == "_Atomic" and not safe:
        quals.remove("_Atomic")
        quals.insert(0, "_Atomic")
        if len(quals) == 1:
            quals.append("const")
    return quals


def gen_base(g, allow_body=True, tagdecl=False):
    """-> list of type-specifier items (words / tag specifier)"""
    c = g.c
    k = c.weighted([(5, "words"), (3, "typedef"), (2, "tagref"), (2, "body"), (1, "enumbody")])
    if k == "words":
        return [("t", w) for w in c.choice(BASE_WORDS)]
    if k == "typedef":
        return [("t", c.choice(g.visible_typedefs()))]
    if k == "tagref" or not allow_body:
        return [c.choice([("su", "struct", "S", None), ("su", "union", "U", None), ("enum", "E", None, False)])]
    if k == "body":
        return [gen_struct(g)]
    n = g.fresh("K")
    ens = [(n + "a", None)]
    for i in range(c.int(0, 2)):
        ens.append((n + "bc"[i], const_expr(g, 1) if c.chance(0.5) else None))
    return [("enum", g.tag("E") if c.chance(0.5) else None, ens, c.chance(0.3))]


def gen_struct(g, depth=1):
    c = g.c
    members = []
    for _ in range(c.int(1, 3)):
        r = c.below(10)
        if r == 0:
            members.append(("pragma", c.choice(["pack(1)", "once", ""])))
        elif r == 1 and g.on("decl.static_assert_in_struct"):
            members.append(("sassert", const_expr(g, 1), c.choice(SASSERT_MSGS[:1] + SASSERT_MSGS[2:])))
        elif r == 2 and depth > 0:
            # anonymous struct/union member (C11)
            inner = gen_struct(g, depth - 1)
            members.append(("decl", [("su", inner[1], None, inner[3])], []))
        else:
            members.append(gen_declaration(g, "member"))
    return ("su", c.choice(["struct", "union"]), g.tag("N") if c.chance(0.6) else None, members)


def gen_spec(g, ctx):
    """declaration specifiers for a context; returns spec list"""
    c = g.c
    base = gen_base(g, allow_body=ctx not in ("param", "typename") or c.chance(0.2))
    quals = [q for q in ["const", "volatile", "_Atomic"] if c.chance(0.15)]
    if ctx == "param" and c.chance(0.05):
        quals.append("restrict")
    storage = []
    funcspec = []
    align = []
    if ctx in ("file", "block"):
        storage = list(c.choice([[], [], [], [], ["static"], ["extern"], ["typedef"], ["_Thread_local"], ["static", "_Thread_local"], ["extern", "_Thread_local"]] + ([["register"], ["auto"]] if ctx == "block" else [])))
        # (a function specifier in a typedef is a constraint violation, and the
        # Typedef node has no place for it: not generated)
        if "typedef" not in storage and c.chance(0.12):
            funcspec = list(c.choice([["inline"], ["_Noreturn"], ["inline", "_Noreturn"], ["_Noreturn", "inline"]]))
    elif ctx == "forinit":
        storage = list(c.choice([[], [], ["register"], ["auto"], ["static"]]))
    elif ctx == "param":
        storage = list(c.choice([[], [], [], ["register"]]))
    elif ctx == "fdef":
        storage = list(c.choice([[], [], ["static"], ["extern"]]))
        if c.chance(0.3):
            funcspec = list(c.choice([["inline"], ["_Noreturn"], ["inline", "_Noreturn"]]))
    if ctx in ("file", "block", "member") and "typedef" not in storage and g.on("decl.alignas", 0.12):
        align.append(("a", ("e", const_expr(g, 1)) if c.chance(0.6) else ("t", gen_typename(g, 1))))
        if g.on("decl.two_alignas", 0.2):
            align.append(("a", ("e", ("const", "16", "int"))))
    items = [("q", q) for q in quals] + [("s", s) for s in storage] + [("f", f) for f in funcspec] + align
    # a qualifier or function specifier may be repeated (C99 6.7.3p4, C11 6.7.4p5)
    rep = [it for it in items if it[0] in ("q", "f") and it[1] != "_Atomic"]
    if rep and c.chance(0.1):
        items.append(c.choice(rep))
    items = c.shuffle(items)
    # insert type words at random positions keeping their relative order
    pos = sorted(c.int(0, len(items)) for _ in base)
    seq = list(items)
    for off, (p, w) in enumerate(zip(pos, base)):
        seq.insert(p + off, w)
    return atomic_not_last(seq)


def atomic_not_last(seq):
    """a bare _Atomic qualifier must not end the specifiers: a '(' may follow,
    and '_Atomic (' always starts the specifier form (C11 6.7.2.4p4)"""
    seq = list(seq)
    if seq and seq[-1] == ("q", "_Atomic"):
        seq.insert(0, seq.pop())
        if len(seq) == 1:
            seq.append(("t", "int"))
    return seq


def gen_deriv(g, n, named, ctx):
    """derivation list of length n"""
    c = g.c
    out = []
    for i in range(n):
        k = c.weighted([(4, "ptr"), (3, "arr"), (2, "fn")])
        if k == "ptr":
            quals = [q for q in M.QUALS if c.chance(0.2)]
            quals = c.shuffle(quals)
            safe = i == 0 and named
            out.append(("ptr", fix_atomic_last(quals, safe=False) if not safe else quals))
        elif k == "arr":
            out.append(gen_array(g, ctx))
        else:
            out.append(("fn", gen_params(g)))
    return out


def gen_array(g, ctx):
    c = g.c
    form = c.weighted([(3, "plain"), (2, "empty"), (1, "star"), (1, "static"), (1, "quals"), (1, "qstatic"), (1, "qualsonly"), (1, "qstar")])
    quals = []
    static = None
    dim = None
    if form in ("quals", "qstatic", "qualsonly", "qstar"):
        quals = [q for q in ["const", "volatile", "restrict"] if c.chance(0.4)] or ["const"]
    if form == "plain":
        dim = array_bound(g)
    elif form == "star" or form == "qstar":
        dim = ("star",)
    elif form == "static":
        static = "first"
        if c.chance(0.4):
            quals = ["const"]
        dim = array_bound(g)
    elif form == "quals":
        dim = array_bound(g)
    elif form == "qstatic":
        static = "last"
        dim = array_bound(g)
    return ("arr", quals, static, dim)


def array_bound(g):
    e = asg_expr(g, g.c.int(0, 2))
    # '[' '*' ... is committed to the VLA star by the parser (finding F5)
    if first_token_is_star(e) and not g.on("decl.array_bound_starts_with_star"):
        return ("const", "3", "int")
    return e


def first_token_is_star(e):
    k = e[0]
    if k == "pre":
        return e[1] == "*"
    if k in ("bin", "asg"):
        return M.level(e[2]) >= (M.BIN[e[1]] if k == "bin" else M.L_UNARY) and first_token_is_star(e[2])
    if k == "cond":
        return M.level(e[1]) >= 1 and first_token_is_star(e[1])
    if k in ("post",):
        return M.level(e[2]) >= M.L_POSTFIX and first_token_is_star(e[2])
    if k in ("idx", "call", "mem"):
        return M.level(e[1]) >= M.L_POSTFIX and first_token_is_star(e[1])
    if k == "comma":
        return M.level(e[1][0]) >= M.L_ASG and first_token_is_star(e[1][0])
    return False


def gen_params(g):
    c = g.c
    k = c.weighted([(2, "empty"), (2, "void"), (6, "proto")])
    if k == "empty":
        return None
    if k == "void":
        return ("proto", [("param", [("t", "void")], ("d", None, [], None, None, None))], False)
    ps = []
    for _ in range(c.int(1, 3)):
        ps.append(gen_param(g))
    return ("proto", ps, c.chance(0.2))


def gen_param(g):
    c = g.c
    spec = gen_spec(g, "param")
    named = c.chance(0.6)
    n = c.int(0, 2)
    deriv = gen_deriv(g, n, named, "param")
    if not named:
        if any(it == ("s", "register") for it in spec) and not g.on("decl.register_on_unnamed_parameter"):
            spec = atomic_not_last([it for it in spec if it != ("s", "register")])
        # an abstract declarator that starts with a function derivation whose
        # parameter list is empty or starts with an identifier would read as a
        # parenthesised name; '(' ')' directly after the specifiers is fine.
        d = ("d", None, deriv, None, None, None)
    else:
        d = ("d", g.fresh("p"), deriv, None, None, gen_parens(g, len(deriv)))
    return ("param", spec, d)


def gen_parens(g, n):
    if not g.c.chance(0.3):
        return None
    return tuple(g.c.chance(0.3) for _ in range(n + 1))


def gen_typename(g, maxderiv):
    c = g.c
    base = gen_base(g, allow_body=c.chance(0.15))
    quals = [("q", q) for q in ["const", "volatile"] if c.chance(0.15)]
    if c.chance(0.05):
        quals.append(("q", "_Atomic"))
    items = list(base)
    for q in quals:
        items.insert(c.int(0, len(items)), q)
    if items[-1] == ("q", "_Atomic"):
        items.insert(0, items.pop())
    n = c.int(0, maxderiv)
    deriv = gen_deriv(g, n, False, "typename")
    return ("tn", items, deriv)


def gen_initlist(g, d, allow_empty=True):
    c = g.c
    items = []
    if allow_empty and c.chance(0.06) and g.on("init.empty_braces"):
        # '{ }': not C99/C11 (C23 and GNU C); pycparser's grammar has it for
        # initializers, nested ones too, but not for the list of a compound literal
        return ("il", [], False)
    for _ in range(c.int(1, 3)):
        des = []
        if c.chance(0.35):
            for _ in range(c.int(1, 2)):
                if c.chance(0.5):
                    des.append((".", c.choice(MEMBERS)))
                else:
                    des.append(("[", const_expr(g, 1)))
        items.append((des, gen_init(g, d - 1)))
    return ("il", items, c.chance(0.2))


def gen_init(g, d):
    if d <= 0 or g.c.chance(0.55):
        return ("ie", gen_expr(g, max(d, 0)))
    return gen_initlist(g, d)


# ---------------------------------------------------------------------------
# declarations
# ---------------------------------------------------------------------------
def gen_atomic_declaration(g, ctx):
    """_Atomic(T) in its simplest form (the rest is quarantined, findings
    F12*): the only qualifier-like specifier of a single named declarator,
    T a scalar, a typedef name, a struct/union reference or a pointer."""
    c = g.c
    inner_base = c.choice([[("t", "int")], [("t", "unsigned"), ("t", "long")], [("t", "T0")], [("su", "struct", "S", None)], [("t", "double")]])
    inner = ("tn", list(inner_base), [("ptr", [])] if c.chance(0.4) else [])
    spec = [("atomic", inner)]
    if ctx in ("file", "block") and c.chance(0.3):
        spec.insert(c.int(0, 1), ("s", c.choice(["static", "extern", "typedef"])))
    is_typedef = ("s", "typedef") in spec
    name = g.fresh("t" if is_typedef else "v")
    nd = c.int(0, 2)
    deriv = gen_deriv(g, nd, True, ctx)
    init = None
    if not is_typedef and ctx != "member" and c.chance(0.3):
        init = ("ie", gen_expr(g, 1))
    if is_typedef:
        g.typedefs[-1].append(name)
    return ("decl", spec, [("d", name, deriv, init, None, gen_parens(g, len(deriv)))])


def gen_declaration(g, ctx):
    """ctx: file | block | member | forinit"""
    c = g.c
    if c.chance(0.04) and g.on("type.atomic_specifier_simple"):
        return gen_atomic_declaration(g, ctx)
    spec = gen_spec(g, ctx)
    is_typedef = ("s", "typedef") in spec
    has_body = any(it[0] == "su" and it[3] is not None or it[0] == "enum" and it[2] is not None for it in spec)
    is_tag = any(it[0] in ("su", "enum") for it in spec)
    if is_tag and ctx in ("file", "block") and not is_typedef and c.chance(0.15) and (has_body or any(it[0] == "su" for it in spec)):
        return ("decl", spec, [])  # tag-only declaration
    n = c.weighted([(6, 1), (2, 2), (1, 3)])
    dcls = []
    for i in range(n):
        name = g.fresh("t" if is_typedef else "v")
        nd = c.weighted([(4, 0), (4, 1), (3, 2), (1, 3)])
        if ctx == "forinit" and i > 0 and not g.on("decl.for_init_nonplain_later_declarator"):
            nd = 0
        deriv = gen_deriv(g, nd, True, ctx)
        init = None
        bits = None
        parens = gen_parens(g, len(deriv))
        if ctx == "member" and c.chance(0.25):
            bits = const_expr(g, 1)
            deriv = []
            parens = None
            if g.on("decl.unnamed_bitfield", 0.3):
                name = None
        elif not is_typedef and ctx != "member" and c.chance(0.35):
            init = gen_init(g, 2)
        dcls.append(("d", name, deriv, init, bits, parens))
    if is_typedef:
        # names become visible after the declaration
        g.typedefs[-1].extend(d[1] for d in dcls)
    return ("decl", spec, dcls)


# ---------------------------------------------------------------------------
# statements
# ---------------------------------------------------------------------------
def gen_leaf_stmt(g):
    c = g.c
    k = c.weighted([(5, "expr"), (1, "empty"), (1, "break"), (1, "continue"), (1, "goto"), (1, "return"), (1, "returnv")])
    if k == "expr":
        return expr_stmt(g, 2)
    if k == "empty":
        return ("empty",)
    if k == "break":
        return ("break",)
    if k == "continue":
        return ("continue",)
    if k == "goto":
        return ("goto", "L%d" % c.below(3))
    if k == "return":
        return ("return", None)
    return ("return", gen_expr(g, 2))


def expr_stmt(g, d):
    e = gen_expr(g, d)
    if e[0] == "cl" and not g.on("stmt.compound_literal_statement"):
        e = ("id", "z")
    return ("expr", e)


def open_if(s):
    """does the statement end in an `if` without else (dangling-else hazard)?"""
    k = s[0]
    if k == "if":
        return s[3] is None or open_if(s[3])
    if k in ("while", "switch", "label", "case", "prag"):
        return open_if(s[2])
    if k == "for":
        return open_if(s[4])
    if k == "default":
        return open_if(s[1])
    return False


def leads_to_case(s):
    while s[0] in ("label", "prag"):
        s = s[2]
    return s[0] in ("case", "default")


def gen_sub(g, d):
    """statement in substatement position (may be pragma-prefixed)"""
    if g.c.chance(0.1) and g.on("stmt.pragma_before_substatement"):
        return ("prag", gen_prags(g), gen_stmt(g, d))
    return gen_stmt(g, d)


def gen_prags(g):
    out = []
    for _ in range(g.c.int(1, 2)):
        if g.c.chance(0.15) and g.on("stmt._Pragma_operator"):
            out.append(("oppragma", ['"omp parallel"']))
        else:
            out.append(("pragma", g.c.choice(["omp x", "once", "pack(1)", "", "STDC FP_CONTRACT ON", "weird { ( @ ` \\ \"", "trailing  "])))
    return out


def gen_stmt(g, d):
    c = g.c
    if d <= 0 or not g.spend():
        return gen_leaf_stmt(g)
    k = c.weighted(
        [(3, "leaf"), (3, "block"), (2, "if"), (2, "ifelse"), (1, "while"), (1, "do"), (2, "for"), (2, "switch"), (1, "switch1"),
         (1, "case"), (1, "default"), (1, "label")]
    )  # fmt: skip
    sub = lambda: gen_sub(g, d - 1)  # noqa: E731
    if k == "leaf":
        return gen_leaf_stmt(g)
    if k == "block":
        return gen_block(g, d - 1)
    if k == "if":
        return ("if", gen_expr(g, 2), sub(), None)
    if k == "ifelse":
        t = sub()
        if open_if(t):
            t = ("block", ([p for p in t[1]] + [t[2]]) if t[0] == "prag" else [t])
        return ("if", gen_expr(g, 2), t, sub())
    if k == "while":
        return ("while", gen_expr(g, 2), sub())
    if k == "do":
        return ("do", sub(), gen_expr(g, 2))
    if k == "for":
        ik = c.weighted([(2, "none"), (2, "expr"), (3, "decl")])
        g.push()
        if ik == "none":
            init = None
        elif ik == "expr":
            init = ("e", gen_expr(g, 2))
        else:
            init = ("d", gen_declaration(g, "forinit"))
        cond = gen_expr(g, 2) if c.chance(0.6) else None
        step = gen_expr(g, 2) if c.chance(0.6) else None
        body = sub()
        g.pop()
        return ("for", init, cond, step, body)
    if k == "switch":
        items = []
        cond = gen_expr(g, 1)
        g.push()
        for _ in range(c.int(0, 4)):
            items.append(gen_switch_item(g, d - 1))
        g.pop()
        return ("switch", cond, ("block", items))
    if k == "switch1":
        return ("switch", gen_expr(g, 1), sub())
    if k == "case":
        return ("case", const_expr(g, 1), sub())
    if k == "default":
        return ("default", sub())
    if k == "label":
        body = sub()
        if leads_to_case(body):
            # a plain label directly in front of a case/default is outside the
            # domain (DESIGN.md C05: wording and documented transform disagree)
            body = gen_leaf_stmt(g)
        return ("label", "L%d" % c.below(3), body)
    raise AssertionError(k)


def gen_switch_item(g, d):
    c = g.c
    k = c.weighted([(3, "case"), (1, "default"), (3, "stmt"), (1, "decl")])
    if k == "case":
        return ("case", const_expr(g, 1), case_body(g, d))
    if k == "default":
        return ("default", case_body(g, d))
    if k == "decl":
        return gen_declaration(g, "block")
    return block_stmt(g, d)


def case_body(g, d):
    c = g.c
    k = c.weighted([(2, "stmt"), (2, "case"), (1, "default")])
    if k == "case" and d > 0:
        return ("case", const_expr(g, 1), case_body(g, d - 1))
    if k == "default" and d > 0:
        return ("default", case_body(g, d - 1))
    return gen_sub(g, d)


def block_stmt(g, d):
    """a statement as a direct block item: a plain label directly in front of
    a case among switch items is outside the domain (DESIGN.md C05), so labels
    wrapping case/default are not generated here."""
    s = gen_stmt(g, d)
    return s


def gen_block(g, d):
    c = g.c
    items = []
    g.push()
    for _ in range(c.int(0, 4)):
        r = c.below(20)
        if r < 4:
            items.append(gen_declaration(g, "block"))
        elif r == 4:
            items.append(("pragma", c.choice(["omp x", "pack(1)", "", "once"])))
        elif r == 5 and g.on("stmt.static_assert_in_block"):
            items.append(("sassert", const_expr(g, 1), c.choice(SASSERT_MSGS)))
        elif r == 6 and g.on("stmt._Pragma_operator"):
            items.append(("oppragma", ['"omp for"']))
        else:
            items.append(gen_stmt(g, d))
    g.pop()
    return ("block", items)


# ---------------------------------------------------------------------------
# translation units
# ---------------------------------------------------------------------------
def gen_fdef(g):
    c = g.c
    style = c.weighted([(5, "proto"), (2, "knr"), (1, "implicit")])
    name = g.fresh("f")
    if style == "implicit" and not g.on("ext.implicit_int"):
        style = "proto"
    if style == "proto":
        spec = gen_spec(g, "fdef")
        spec = [it for it in spec if not (it[0] in ("su", "enum") and False)]
        ps = gen_params(g)
        # a definition's parameters should be named; unnamed ones are a
        # constraint violation, not a syntax error - keep them rare
        ret = gen_deriv(g, c.int(0, 2), True, "fdef")
        if ret and ret[0][0] != "ptr":
            # a definition whose declarator makes the function return an array or a
            # function is derivable from Annex A but violates 6.9.1p2 / 6.7.5.3p1 and
            # gcc's parser refuses the body: keep the returned type a pointer
            ret.insert(0, ("ptr", []))
        d = ("d", name, [("fn", ps)] + ret, None, None, None)
        g.push()
        body = gen_block(g, c.int(1, 3))
        g.pop()
        return ("fdef", spec, d, None, body)
    if style == "knr":
        names = [g.fresh("p") for _ in range(c.int(1, 3))]
        spec = [("t", c.choice(["int", "void", "T0", "char"]))]
        d = ("d", name, [("fn", ("knr", names))], None, None, None)
        order = c.shuffle(names)
        kd = []
        for nm in order:
            if c.chance(0.15):
                continue  # undeclared K&R parameter defaults to int
            kd.append(("decl", [("t", c.choice(["int", "char", "T0", "double"]))], [("d", nm, gen_deriv(g, c.int(0, 1), True, "block"), None, None, None)]))
        if not spec and not kd:
            pass
        g.push()
        body = gen_block(g, c.int(1, 2))
        g.pop()
        return ("fdef", spec, d, kd if kd else None, body)
    d = ("d", name, [("fn", None if c.chance(0.5) else ("knr", [g.fresh("p")]))], None, None, None)
    g.push()
    body = gen_block(g, c.int(1, 2))
    g.pop()
    return ("fdef", [], d, None, body)


def gen_external(g):
    c = g.c
    k = c.weighted([(5, "decl"), (5, "fdef"), (1, "pragma"), (1, "sassert"), (1, "semi"), (1, "oppragma")])
    if k == "decl":
        return gen_declaration(g, "file")
    if k == "fdef":
        return gen_fdef(g)
    if k == "pragma":
        return ("pragma", c.choice(["once", "pack(push, 1)", "", "omp threadprivate(x)"]))
    if k == "sassert":
        return ("sassert", const_expr(g, 1), c.choice(SASSERT_MSGS))
    if k == "oppragma":
        if g.on("stmt._Pragma_operator"):
            return ("oppragma", ['"pack(1)"'])
        return ("semi",)
    return ("semi",)


def same_tag_twice(g):
    """two function definitions whose bodies define the SAME tag with different
    bodies (sibling scopes, same nesting depth): two different types"""
    c = g.c
    void_fn = lambda name, items: ("fdef", [("t", "void")], ("d", name, [("fn", ("proto", [("param", [("t", "void")], ("d", None, [], None, None, None))], False))], None, None, None), None, ("block", items))  # noqa: E731
    if c.chance(0.5):
        a = gen_struct(g, 0)
        b = gen_struct(g, 0)
        tag = a[2] or g.fresh("N")
        a = (a[0], a[1], tag, a[3])
        b = (b[0], a[1], tag, b[3] if b[3] != a[3] else b[3] + [("decl", [("t", "char")], [("d", g.fresh("m"), [], None, None, None)])])
    else:
        tag = g.fresh("E")
        a = ("enum", tag, [(g.fresh("K"), None)], False)
        b = ("enum", tag, [(g.fresh("K"), ("const", "2", "int")), (g.fresh("K"), None)], True)
    out = []
    for spec in (a, b):
        out.append(void_fn(g.fresh("f"), [("decl", [spec], [("d", g.fresh("v"), [], None, None, None)])]))
    return out


def gen_unit(g, n=None):
    n = n if n is not None else g.c.int(1, 4)
    ext = [gen_external(g) for _ in range(n)]
    if n > 1 and g.c.chance(0.1):
        ext += same_tag_twice(g)
    return ("tu", ext)


def fix_fdef_param_names(x):
    return x
