"""C17 - the AST (minus coordinates) depends only on the token sequence."""
from pycparser import c_generator

from .. import cmodel as M
from .. import gen
from .. import reflex
from ..astdump import dump, first_difference
from ..corpus import corpus
from ..layout import lay_out
from ..oracle import parse_outcome
from ..runner import CheckFailure, Stats, fail, hyp_search

ID = "C17"
RULE = (
    "Accepted programs - Hypothesis-generated translation units (token lists from the model renderer) and the preprocessed "
    "corpus split by the reference tokenizer - are re-laid out: one token per line, a single line with no blank where the "
    "reference tokenizer allows adjacency, and N random layouts (blanks, tabs, newlines, indentation, linemarkers of 8 forms "
    "that change line and file between arbitrary tokens, #pragma lines kept on their own line); model programs are also "
    "re-rendered with redundant parentheses around Hypothesis-chosen non-comma operands (and with every operand "
    "parenthesised); exhaustively, every expression tree with <= 2 (quick) / 3 (thorough, reduced alphabet) operator nodes of the C02 "
    "alphabet with every subset of its operands - identifiers and constants included - redundantly parenthesised. Oracle (metamorphic): every variant parses, and has the same dump (coordinates aside) and the same "
    "CGenerator output as the plain rendering. Non-trivial: a variant pair differing in >= 1 linemarker placed between two "
    "tokens and >= 1 redundant parenthesis (model programs) / >= 1 linemarker (corpus); distinct by hash of the variant text."
)
ASSUMPTIONS = ["base programs the tree does not accept carry no claim"]
QUARANTINE = ()


class T:
    __slots__ = ("s", "line")

    def __init__(self, s, line=False):
        self.s = s
        self.line = line


def gen_text(ast):
    try:
        return c_generator.CGenerator().visit(ast)
    except RecursionError:
        return None
    except Exception as e:  # noqa: BLE001 - generator defects are C07's business
        return "<generator raised %s>" % type(e).__name__


def compare(base_dump, base_gen, text, what, case):
    out = parse_outcome(text, "f.c", ("f.c", "g.h", "dir/h.h", "a b.c", ""))
    if out[0] != "ast":
        fail("variant", case, text, "variant (%s) of an accepted program is not accepted: %r" % (what, out[1:]), "variant-rejected")
    d = dump(out[1])
    if d != base_dump:
        fail("variant", case, text, "variant (%s) gives a different AST at %s" % (what, first_difference(base_dump, d)), "variant-ast")
    g = gen_text(out[1])
    if g != base_gen:
        fail("variant", case, text, "variant (%s) regenerates different C text" % what, "variant-gen")


def check_tokens(toks, c, nlayouts, st, label, span_len=None):
    """toks: list of T; returns (accepted, markers_used)"""
    base = lay_out(toks, None, style="plain")
    out = parse_outcome(base.text, "f.c", ("f.c",))
    st.evaluations += 1
    if out[0] != "ast":
        st.classes["base_not_accepted"] += 1
        return None
    bd = dump(out[1])
    bg = gen_text(out[1])
    case0 = (label, [(t.s, t.line) for t in toks])
    for style in ("lines", "single"):
        v = lay_out(toks, None, style=style)
        st.evaluations += 1
        compare(bd, bg, v.text, style, case0 + (style, v.text))
    nm = 0
    for k in range(nlayouts):
        span = None
        if span_len is not None and len(toks) > span_len:
            lo = c.int(0, len(toks) - span_len)
            span = (lo, lo + span_len)
        v = lay_out(toks, c, style="random", span=span)
        st.evaluations += 1
        compare(bd, bg, v.text, "random layout", case0 + ("random", v.text))
        nm += len(v.inside_markers)
        if v.inside_markers:
            st.nt(v.text)
    return bd, bg, nm


def random_shard(arg):
    seed, n, nlayouts = arg
    st = Stats()

    def body(c):
        g = gen.G(c, quarantine=QUARANTINE, max_nodes=200)
        tu = M.freshen(gen.gen_unit(g))
        r = M.Renderer("min")
        r.unit(tu)
        toks = [T(x) for x in gen.PRELUDE.split()] + [T(t.s, t.line) for t in r.toks]
        res = check_tokens(toks, c, nlayouts, st, "generated")
        if res is None:
            return
        bd, bg, nm = res
        # redundant parentheses: same model, other parenthesisation
        for mode, pm in (("red", c.int(1, 0xFFFF)), ("red", c.int(1, 0xFFFF)), ("full", 0)):
            r2 = M.Renderer(mode, M.paren_from_mask(pm))
            r2.unit(tu)
            toks2 = [T(x) for x in gen.PRELUDE.split()] + [T(t.s, t.line) for t in r2.toks]
            v = lay_out(toks2, c, style="random")
            st.evaluations += 1
            compare(bd, bg, v.text, "redundant parentheses (%s) + random layout" % mode, ("paren", tu, mode, pm, v.text))
            if len(toks2) > len(toks) and v.inside_markers:
                st.nt(v.text)
                st.classes["variants_with_parens_and_marker"] += 1
        st.classes["programs"] += 1
        if st.classes["programs"] % 41 == 1:
            st.sample(lay_out(toks, c, style="random").text[:300])

    hyp_search(body, seed, n, st)
    return st


def paren_enum_shard(arg):
    """Exhaustive: every expression tree with <= 2 operator nodes (the C02
    alphabet), every subset of its non-comma operands - identifiers and
    constants included - wrapped in redundant parentheses (all subsets up to 5
    operands, 32 spread subsets beyond), in a rotating context."""
    import itertools

    from ..unitcheck import EXPR_CONTEXTS, unit_text
    from . import c02

    n, first_kind = arg
    st = Stats()
    name, ar, mk = c02.first_kind_lookup(first_kind)
    idx = 0
    for split in c02._splits(n - 1, ar):
        for kids in itertools.product(*[list(c02.trees(k, c02.KINDS)) for k in split]):
            e = mk(*kids)
            idx += 1
            ci = idx % len(EXPR_CONTEXTS)
            tu = M.freshen(EXPR_CONTEXTS[ci][1](e))
            npos = [0]

            def count(node):
                npos[0] += 1
                return False

            base = unit_text(tu, "red", count)
            out = parse_outcome(base, "f.c", ("f.c",))
            k = min(npos[0], 16)
            masks = range(1, 1 << k) if k <= 5 else sorted({((i * 0x9E3779B1) >> 7) % (1 << k) or 1 for i in range(1, 33)})
            if out[0] != "ast":
                # the relation holds in both directions: a program that is only
                # accepted WITH redundant parentheses differs from its plain spelling
                # by more than coordinates
                st.classes["base_not_accepted"] += 1
                for pm in masks:
                    text = unit_text(tu, "red", M.paren_from_mask(pm))
                    st.evaluations += 1
                    if parse_outcome(text, "f.c", ("f.c",))[0] == "ast":
                        st.failures.append(dict(subcheck="variant", case=("parenenum", e, ci, pm, text), text=text, detail="accepted with redundant parentheses (operand subset %s) but rejected without them: %r" % (bin(pm), out[1:]), sig="plain-rejected"))
                        break
                continue
            bd, bg = dump(out[1]), gen_text(out[1])
            for pm in masks:
                text = unit_text(tu, "red", M.paren_from_mask(pm))
                st.evaluations += 1
                try:
                    compare(bd, bg, text, "redundant parentheses, operand subset %s" % bin(pm), ("parenenum", e, ci, pm, text))
                except CheckFailure as f:
                    st.failures.append(f.failure)
                    if len(st.failures) > 20:
                        return st
                st.nontrivial += 1
            if idx % 501 == 1:
                st.sample(text.split("\n", 1)[1])
    return st


def corpus_shard(arg):
    name, text, seed, nlayouts = arg
    st = Stats()
    items = reflex.split_source(text)
    if items is None:
        return st
    toks = []
    for k, s in items:
        if k == "tok":
            toks.append(T(s))
        elif s.lstrip()[1:].lstrip().startswith("pragma"):
            ls = s.lstrip()
            toks.append(T("#" + ls[1:].lstrip(), True))
    # #pragma text: the lexer skips the blanks after 'pragma' - T.s keeps one blank

    def body(c):
        check_tokens(toks, c, nlayouts, st, "corpus:" + name, span_len=250)

    hyp_search(body, seed, 1, st)
    return st


def run(ctx):
    from . import c02

    jobs = [(1, k[0]) for k in c02.KINDS] + [(2, k[0]) for k in c02.KINDS]
    if not ctx.quick:
        jobs += [(3, k[0]) for k in c02.KINDS if k[0] in c02.REDUCED]
    ctx.map(paren_enum_shard, jobs)
    ctx.exhaustive = True
    ctx.extra["exhaustive_bounds"] = "expression trees with <= %d operator nodes x every subset of redundantly parenthesised operands (<= 5 operands: all subsets)" % ctx.pick(2, 3)
    ctx.map(random_shard, [(s, ctx.pick(60, 1200), ctx.pick(6, 20)) for s in ctx.shard_seeds(16)])
    progs = corpus(big=not ctx.quick)
    ctx.map(corpus_shard, [(n, t, ctx.seed + i, ctx.pick(3, 10)) for i, (n, t) in enumerate(progs)])


def replay(subcheck, case):
    if case[0] == "parenenum":
        from ..unitcheck import EXPR_CONTEXTS, unit_text

        _, e, ci, pm, text = case
        tu = M.freshen(EXPR_CONTEXTS[ci][1](e))
        base = unit_text(tu, "min")
        out = parse_outcome(base, "f.c", ("f.c",))
        if out[0] != "ast":
            if parse_outcome(text, "f.c", ("f.c",))[0] == "ast":
                fail("variant", case, text, "accepted with redundant parentheses but rejected without them: %r" % (out[1:],), "plain-rejected")
            return
        compare(dump(out[1]), gen_text(out[1]), text, "replay", case)
        return
    if case[0] == "paren":
        _, tu, mode, pm, text = case
        r = M.Renderer("min")
        tu = M.freshen(tu)
        r.unit(tu)
        base = gen.PRELUDE + "\n" + M.text_of(r.toks)
    else:
        label, toks, style, text = case
        base = lay_out([T(s, l) for s, l in toks], None, style="plain").text
    out = parse_outcome(base, "f.c", ("f.c",))
    if out[0] != "ast":
        return
    compare(dump(out[1]), gen_text(out[1]), text, "replay", case)
