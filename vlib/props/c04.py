"""C04 - an identifier is a type name exactly where C scoping makes it one."""
import itertools

from pycparser import c_ast

from ..astdump import dump
from ..oracle import parse_outcome
from ..runner import CheckFailure, Stats, fail, hyp_search

ID = "C04"
RULE = (
    "Histories: sequences of declaration events over names T, U (V in the random part) in nested scopes - typedef, object "
    "(plain / pointer with initializer), function declaration, enumerator, struct tag, struct member, prototype-only parameter, "
    "label, function definition (plain / with the name as parameter / with the name as its own name), block open/close, function end - rendered as one "
    "translation unit; after EVERY event, for EVERY name, probes 'N * y;', '(N)(y);', 'sizeof(N) + w;', 'N (z);' (block scope) "
    "or 'int p = sizeof(N);', 'int q = (N)(1);' (file scope) with fresh identifiers. A reference scope model (C99 6.2.1/6.2.3: "
    "stack of ordinary-identifier scopes; parameters live in the body's block; tags, members, labels, prototype parameters "
    "never affect it) predicts whether N names a type, hence the AST class of each probe (Decl vs BinaryOp, Cast vs FuncCall, "
    "sizeof(Typename) vs sizeof(ID), Decl vs FuncCall). Exhaustive: all event sequences of length <= 3 plus every 5th of length "
    "4 (quick) / all of length <= 4 plus every 7th of length 5 (thorough) over the 26-event alphabet; Hypothesis: histories of "
    "up to 25 events, 3 names. Histories the model deems invalid C are skipped; events that trigger a known finding (an "
    "enumerator or label spelled like a visible typedef: F15, F16) are skipped and counted. Non-trivial: the history contains "
    "a shadowing of a typedef by an inner declaration and a scope exit after it; distinct by construction / by hash."
    " A 'braces' event (initializer lists, compound literals, sizeof of a compound literal, member lists inside expressions; 10 block-scope and 6 file-scope forms) stands for brace constructs that are not scopes. "
)
ASSUMPTIONS = ["the reference scope model in this module (written from C99 6.2.1, not from c_parser.py)"]

NAMES = ["T", "U"]
KINDS = ["td", "obj", "objp", "fn", "enumr", "tag", "member", "proto", "label", "funcopen", "funcparam", "funcnamed", "open", "close", "endfunc", "braces"]
NAMELESS = ("funcopen", "open", "close", "endfunc", "braces")
EVENTS = [(k, n) for k in KINDS for n in NAMES if not (k in NAMELESS and n != "T")]


class Invalid(Exception):
    """the history is not valid C (or uses a quarantined event): no claim"""


class Quarantined(Invalid):
    def __init__(self, feature):
        Invalid.__init__(self, feature)
        self.feature = feature


def build(seq, names=NAMES, probe_kinds=None):
    """-> (source, probes, nontrivial).  probes: (id, name, is_type, kind)"""
    out = []
    scopes = [{}]
    probes = []
    st = dict(pid=0, fid=0, in_func=False, depth=0, shadow=False, exit_after=False)

    def lookup(n):
        for s in reversed(scopes):
            if n in s:
                return s[n]
        return None

    def probe(step):
        for n in names:
            ist = lookup(n) == "typedef"
            kinds = ["mul", "cast", "sizeof", "declparen"] if st["in_func"] else ["fsizeof", "fcast"]
            if probe_kinds is not None:
                kinds = [kinds[probe_kinds[(step + len(n)) % len(probe_kinds)] % len(kinds)]]
            for kind in kinds:
                st["pid"] += 1
                k = st["pid"]
                if kind == "mul":
                    out.append("%s * y%d;" % (n, k))
                elif kind == "cast":
                    out.append("(%s)(y%d);" % (n, k))
                elif kind == "sizeof":
                    out.append("sizeof(%s) + w%d;" % (n, k))
                elif kind == "declparen":
                    out.append("%s (z%d);" % (n, k))
                elif kind == "fsizeof":
                    out.append("int p%d = sizeof(%s);" % (k, n))
                else:
                    out.append("int q%d = (%s)(1);" % (k, n))
                # probes that are declarations (when N is a type) declare their fresh name
                if ist and kind == "mul":
                    scopes[-1]["y%d" % k] = "obj"
                if ist and kind == "declparen":
                    scopes[-1]["z%d" % k] = "obj"
                probes.append((k, n, ist, kind))

    for step, evt in enumerate(seq):
        ev, n = evt[0], evt[1]
        v = evt[2] if len(evt) > 2 else 0  # spelling variant of the event
        cur = scopes[-1]
        here = cur.get(n)
        vis = lookup(n)
        st["fid"] += 1
        f = st["fid"]
        in_func = st["in_func"]
        if ev == "td":
            if here not in (None, "typedef"):
                raise Invalid("typedef redeclares an object in the same scope")
            if n in st.setdefault("knr", set()) and len(scopes) == 1:
                raise Quarantined("scope.knr_param_then_file_scope_typedef(F17)")
            out.append(["typedef int {n};", "typedef int *{n};", "typedef struct {{ int a; }} {n};", "typedef int (*{n})(int);", "typedef int xt{f}, {n};"][v % 5].format(n=n, f=f))
            cur[n] = "typedef"
        elif ev in ("obj", "objp", "fn"):
            if here is not None and not (here == "obj" and not in_func and ev == "obj"):
                raise Invalid("redeclaration in the same scope")
            if vis == "typedef" and len(scopes) > 1:
                st["shadow"] = True
            forms = {
                "obj": ["int {n};", "int {n};", "int ({n});", "extern int {n};", "_Atomic(int) *{n};", "const unsigned long long {n};", "_Alignas(8) int {n};", "struct so{f} {{ int a; }} {n};"]
                if not in_func
                else ["int {n};", "int {n}[2];", "int ({n});", "int xo{f}, {n};", "_Atomic(int) {n}[2];", "static volatile int {n};", "_Atomic(int) xa{f} = 1, {n};", "enum eo{f} {{ eo{f}a }} *{n};"],
                "objp": ["int *{n} = 0;", "int {n} = 1;", "int *{n}[2] = {{ 0 }};", "char {n} = 'c';", "_Atomic(int) {n} = 1;", "_Atomic(long) (*{n})(void) = 0;", "const _Atomic(int) {n} = 2, ya{f};", "_Alignas(int) _Atomic(int) {n} = 3;"],
                "fn": ["int {n}(void);", "int *{n}(int);", "int ({n})(void);", "void {n}();"],
            }[ev]
            out.append(forms[v % len(forms)].format(n=n, f=f))
            cur[n] = "obj"
        elif ev == "enumr":
            if here is not None:
                raise Invalid("redeclaration in the same scope")
            if vis == "typedef":
                raise Quarantined("scope.enumerator_named_like_typedef(F15)")
            out.append(["enum {{ {n} }};", "enum E{f} {{ A{f}, {n} = 2 }};", "enum {{ {n} = 1, B{f} }};"][v % 3].format(n=n, f=f))
            cur[n] = "obj"
        elif ev == "tag":
            out.append(["struct {n} {{ int m; }};", "struct {n};", "enum {n} {{ B{f} }};", "union {n} *u{f};"][v % 4].format(n=n, f=f))
        elif ev == "member":
            tds = [nm for nm in names if lookup(nm) == "typedef"]
            if tds and v % 3 == 2:
                # 'T : 3;' - an unnamed bit-field of a typedef'd type: T is a type name directly followed by ':'
                out.append("struct S%d { %s : 3; int %s; %s\n: 0; };" % (f, tds[0], n, tds[-1]))
            else:
                out.append(["struct S{f} {{ int {n}; }};", "struct S{f} {{ int *{n}, k; }};", "union W{f} {{ int {n} : 3; }};", "struct S{f} {{ struct {{ int {n}; }} in; }};"][v % 4].format(n=n, f=f))
        elif ev == "proto":
            if vis == "typedef" and v % 5 == 3:
                raise Quarantined("decl.paren_typedef_name_parameter(F9a)")
            out.append(["void g{f}(int {n});", "void g{f}(int {n}, int w);", "void (*h{f})(int {n});", "int g{f}(int (*{n})(void), ...);", "void g{f}(int, int {n}[]);"][v % 5].format(n=n, f=f))
        elif ev == "label":
            if not in_func:
                raise Invalid("label outside a function")
            if vis == "typedef":
                raise Quarantined("scope.label_named_like_typedef(F16)")
            out.append("%s: ;" % n)
        elif ev == "funcopen":
            if in_func:
                raise Invalid("nested function")
            out.append("void f%d(void) {" % f)
            scopes.append({})
            st["in_func"] = True
            st["depth"] = 0
        elif ev == "funcparam":
            if in_func:
                raise Invalid("nested function")
            if vis == "typedef":
                st["shadow"] = True
            if vis == "typedef" and v % 12 == 4:
                raise Quarantined("decl.paren_typedef_name_parameter(F9a)")
            if vis == "typedef" and v % 12 == 5:
                raise Invalid("a typedef name cannot appear in a K&R identifier list")
            forms = ["void f{f}(int {n}) {{", "void f{f}(int a{f}, int *{n}) {{", "int f{f}(int, int {n}) {{", "void f{f}(int {n}[], ...) {{", "void f{f}(char, long, int (*{n})(void)) {{", "int f{f}({n}) int {n}; {{",
                     # definitions without any declaration specifier (implicit int, which pycparser accepts)
                     "f{f}(int {n}) {{", "*f{f}(int a{f}, int {n}, ...) {{", "static f{f}(int {n}) {{", "int (f{f}(int {n})) {{",
                     # a function returning a pointer to function: only ITS parameters are in scope in the body
                     "int (*f{f}(int {n}))(void) {{", "void (*(f{f})(int {n}, char c{f}))(int d{f}) {{"]
            out.append(forms[v % len(forms)].format(n=n, f=f))
            if v % len(forms) == 5:
                st.setdefault("knr", set()).add(n)
            scopes.append({n: "obj"})
            st["in_func"] = True
            st["depth"] = 0
        elif ev == "funcnamed":
            # a function definition whose OWN name is n: the name belongs to the
            # enclosing (file) scope, its body is an inner scope that may re-use it
            if in_func:
                raise Invalid("nested function")
            if here is not None:
                raise Invalid("redeclaration in the same scope")
            forms = ["int {n}(void) {{", "void {n}(int a{f}) {{", "int *{n}(int a{f}, ...) {{", "int {n}(a{f}) int a{f}; {{", "static int ({n})(void) {{"]
            out.append(forms[v % len(forms)].format(n=n, f=f))
            cur[n] = "obj"
            scopes.append({})
            st["in_func"] = True
            st["depth"] = 0
        elif ev == "braces":
            # braces that are not a block: initializer lists, compound literals,
            # member lists.  They declare none of the names and open no scope
            # that outlives them.
            if in_func:
                forms = ["cw{f} = (int[]){{ 1, 2 }}[0];", "sizeof (int){{ 1 }};", "(void)&(struct cl{f} {{ int a; }}){{ 1 }};", "int ar{f}[2] = {{ 1, 2 }};",
                         "struct {{ int a[2]; }} sv{f} = {{ .a = {{ 1 }} }};", "cw{f} = sizeof (struct {{ int a; }});", "cw{f} = ((int){{ 1 }}) + (char){{ 2 }};",
                         "for (int i{f} = (int){{ 0 }}; i{f} < 1; i{f}++) ;", "switch ((int){{ 1 }}) {{ case 1: ; }}", "cw{f} = (int[2]){{ [1] = 2 }}[1] + sizeof (int[]){{ 1 }};"]  # fmt: skip
            else:
                forms = ["int ar{f}[2] = {{ 1, 2 }};", "struct {{ int a[2]; }} sv{f} = {{ .a = {{ 1 }} }};", "int *cp{f} = (int[]){{ 1, 2 }};", "int sz{f} = sizeof (int){{ 1 }};",
                         "enum {{ ee{f} = sizeof (struct {{ int a; }}) }};", "int sy{f} = sizeof (int[]){{ 1 }} + sizeof (char){{ 2 }};"]  # fmt: skip
            out.append(forms[v % len(forms)].format(f=f))
        elif ev == "open":
            if not in_func:
                raise Invalid("block outside a function")
            out.append("{")
            scopes.append({})
            st["depth"] += 1
        elif ev == "close":
            if not in_func or st["depth"] == 0:
                raise Invalid("no block to close")
            out.append("}")
            scopes.pop()
            st["depth"] -= 1
            if st["shadow"]:
                st["exit_after"] = True
        elif ev == "endfunc":
            if not in_func or st["depth"] > 0:
                raise Invalid("no function to end")
            out.append("}")
            scopes.pop()
            st["in_func"] = False
            if st["shadow"]:
                st["exit_after"] = True
        else:
            raise ValueError(ev)
        probe(step)
    while st["in_func"]:
        out.append("}")
        scopes.pop()
        if st["depth"] > 0:
            st["depth"] -= 1
        else:
            st["in_func"] = False
    return "\n".join(out), probes, (st["shadow"] and st["exit_after"])


def items_of(ast):
    items = []

    def collect(n):
        if isinstance(n, c_ast.FileAST):
            for e in n.ext:
                collect(e)
        elif isinstance(n, c_ast.FuncDef):
            collect(n.body)
        elif isinstance(n, c_ast.Compound):
            for b in n.block_items or []:
                collect(b)
        elif isinstance(n, c_ast.Label):
            collect(n.stmt)
        else:
            items.append(n)

    collect(ast)
    return items


TAG = {"mul": "y", "cast": "y", "sizeof": "w", "declparen": "z", "fsizeof": "p", "fcast": "q"}


def check_history(seq, case, names=NAMES, probe_kinds=None):
    """raises Invalid / CheckFailure; returns (src, nontrivial)"""
    src, probes, nontriv = build(seq, names, probe_kinds)
    out = parse_outcome(src, "f.c", ("f.c",))
    if out[0] != "ast":
        fail("history", case, src, "valid history rejected: %r" % (out[1:],), "rejected")
    bykey = {}
    for it in items_of(out[1]):
        s = repr(dump(it))
        for k, n, ist, kind in probes:
            if ("'%s%d'" % (TAG[kind], k)) in s:
                bykey[k] = it
    for k, n, ist, kind in probes:
        it = bykey.get(k)
        if it is None:
            fail("history", case, src, "probe %d (%s of %s) not found in the AST" % (k, kind, n), "probe-missing")
        cls = type(it).__name__
        if kind == "mul":
            ok = (cls == "Decl") if ist else (cls == "BinaryOp")
        elif kind == "cast":
            ok = (cls == "Cast") if ist else (cls == "FuncCall")
        elif kind == "declparen":
            ok = (cls == "Decl") if ist else (cls == "FuncCall")
        elif kind == "sizeof":
            ok = cls == "BinaryOp" and type(it.left.expr).__name__ == ("Typename" if ist else "ID")
        elif kind == "fsizeof":
            ok = cls == "Decl" and type(it.init.expr).__name__ == ("Typename" if ist else "ID")
        else:
            ok = cls == "Decl" and type(it.init).__name__ == ("Cast" if ist else "FuncCall")
        if not ok:
            fail("history", case, src, "probe %d: %s should be read as %s here (probe kind %s), parser produced %s" % (k, n, "a type" if ist else "an expression", kind, cls), "wrong-reading:%s:%s" % (kind, "type" if ist else "expr"))
    return src, nontriv


def enum_shard(arg):
    n, first, stride = arg
    st = Stats()
    idx = 0
    for rest in itertools.product(range(len(EVENTS)), repeat=n - 1):
        idx += 1
        if stride > 1 and idx % stride != 0:
            continue
        seq = [EVENTS[first]] + [EVENTS[i] for i in rest]
        # rotate the spelling variant of every event with the sequence number
        seq = [(k, nm, (idx + 3 * j) % 60) for j, (k, nm) in enumerate(seq)]
        st.evaluations += 1
        try:
            src, nt = check_history(seq, ("seq", seq))
        except Quarantined as q:
            st.excluded[q.feature] += 1
            continue
        except Invalid:
            st.classes["invalid_history_no_claim"] += 1
            continue
        except CheckFailure as f:
            st.failures.append(f.failure)
            if len(st.failures) > 20:
                return st
            continue
        st.classes["valid_histories"] += 1
        if nt:
            st.nontrivial += 1
            if st.nontrivial % 499 == 1:
                st.sample(src)
    return st


def random_shard(arg):
    seed, n = arg
    st = Stats()
    names = ["T", "U", "V"]
    events = [(k, nm) for k in KINDS for nm in names if not (k in NAMELESS and nm != "T")]

    def body(c):
        # build a history step by step, re-drawing events the model refuses
        seq = []
        target = c.int(1, 25)
        tries = 0
        while len(seq) < target and tries < 200:
            tries += 1
            ev = c.choice(events) + (c.below(60),)
            try:
                build(seq + [ev], names, [0])
            except Quarantined as q:
                st.excluded[q.feature] += 1
                continue
            except Invalid:
                continue
            seq.append(ev)
        pk = [c.below(4) for _ in range(c.int(1, 4))]
        st.evaluations += 1
        src, nt = check_history(seq, ("hist", seq, names, pk), names, pk)
        st.classes["valid_histories"] += 1
        if nt:
            st.nt(src)
        if st.evaluations % 199 == 1:
            st.sample(src)

    hyp_search(body, seed, n, st)
    return st


def run(ctx):
    jobs = []
    if ctx.quick:
        for n in (1, 2, 3):
            jobs += [(n, f, 1) for f in range(len(EVENTS))]
        jobs += [(4, f, 2) for f in range(len(EVENTS))]
        bounds = "all event sequences of length <= 3 and every 2nd of length 4 over %d events" % len(EVENTS)
    else:
        for n in (1, 2, 3, 4):
            jobs += [(n, f, 1) for f in range(len(EVENTS))]
        jobs += [(5, f, 7) for f in range(len(EVENTS))]
        bounds = "all event sequences of length <= 4 and every 7th of length 5 over %d events" % len(EVENTS)
    jobs.sort(key=lambda j: -j[0])
    ctx.map(enum_shard, jobs)
    ctx.map(random_shard, [(s, ctx.pick(300, 6000)) for s in ctx.shard_seeds(16)])
    ctx.exhaustive = True
    ctx.extra["exhaustive_bounds"] = bounds + "; every probe kind for every name after every event"


def replay(subcheck, case):
    try:
        if case[0] == "seq":
            check_history([tuple(e) for e in case[1]], case)
        elif case[0] == "text":
            # a finding stated as plain source: 'must be accepted' / probe list
            _, src, expect = case
            out = parse_outcome(src, "f.c", ("f.c",))
            if out[0] != "ast":
                fail("history", case, src, "valid program rejected: %r" % (out[1:],), "rejected")
            for path, cls in expect:
                node = out[1]
                for p in path:
                    node = node[p] if isinstance(p, int) else getattr(node, p)
                if type(node).__name__ != cls:
                    fail("history", case, src, "node at %r is %s, C scoping makes it %s" % (path, type(node).__name__, cls), "wrong-reading")
        else:
            _, seq, names, pk = case
            check_history([tuple(e) for e in seq], case, names, pk)
    except Invalid:
        pass
