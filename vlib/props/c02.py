"""C02 - expression ASTs follow C precedence, associativity and binding."""
import itertools

from .. import cmodel as M
from .. import gen
from ..oracle import parse_outcome
from ..runner import CheckFailure, Stats, fail, hyp_search
from ..unitcheck import EXPR_CONTEXTS, check_unit

ID = "C02"
RULE_POSITION = (
    " Position in the token stream: a fixed unit (grouping parentheses, casts, sizeof in both forms, a compound literal, parenthesised "
    "callee and declarators, typedef use) is parsed behind N empty declarations for every N that moves one of its tokens onto a "
    "power-of-two or round decimal token index up to 131 072 (quick) / 262 144 (thorough); the tree must equal the unit's own tree; "
    "and the unit repeated 120 (quick) / 800 (thorough) times behind j empty declarations for every j below its length, so that each of its tokens "
    "stands on every token index up to 11 000 / 76 000."
)
RULE = (
    "Expression trees of an independent model (18 binary, 11 assignment operators, ?:, comma, 9 prefix, 2 postfix operators, "
    "cast, sizeof/_Alignof(type), subscript, call, ./->, compound literal, offsetof; constants of every kind) are rendered with "
    "minimal, redundant and full parenthesisation inside 12 contexts and the parsed subtree is compared with the tree the C "
    "grammar assigns (expected AST derived from the model, never from pycparser). Exhaustive: all trees with <= 2 (quick) / "
    "<= 3 (thorough) operator nodes over one leaf; Hypothesis-generated trees up to depth 6 beyond. Non-trivial: >= 2 "
    "operator nodes of different grammar levels, or a cast/sizeof/compound-literal next to a parenthesis; distinct by "
    "construction (enumeration) / by hash of the rendered text (random)." + RULE_POSITION
)
ASSUMPTIONS = ["the expected AST for each construct is the one README/_c_ast.cfg/c_ast docstrings describe (vlib/cmodel.py Expect)"]

A = ("id", "a")
TN_INT = ("tn", [("t", "int")], [])
TN_T = ("tn", [("t", "T0")], [])
TN_PTR = ("tn", [("t", "char")], [("ptr", [])])

# operator "kinds": (name, arity, constructor)
KINDS = []
for _op in M.BIN:
    KINDS.append(("bin" + _op, 2, lambda l, r, _op=_op: ("bin", _op, l, r)))
for _op in M.ASG:
    KINDS.append(("asg" + _op, 2, lambda l, r, _op=_op: ("asg", _op, l, r)))
KINDS.append(("cond", 3, lambda c, t, f: ("cond", c, t, f)))
KINDS.append(("comma", 2, lambda l, r: ("comma", [l, r])))
for _op in M.PRE:
    KINDS.append(("pre" + _op, 1, lambda e, _op=_op: ("pre", _op, e)))
for _op in ("++", "--"):
    KINDS.append(("post" + _op, 1, lambda e, _op=_op: ("post", _op, e)))
KINDS.append(("castint", 1, lambda e: ("cast", TN_INT, e)))
KINDS.append(("castT", 1, lambda e: ("cast", TN_T, e)))
KINDS.append(("idx", 2, lambda a, i: ("idx", a, i)))
KINDS.append(("call0", 1, lambda f: ("call", f, [])))
KINDS.append(("call1", 2, lambda f, x: ("call", f, [x])))
KINDS.append(("call2", 3, lambda f, x, y: ("call", f, [x, y])))
KINDS.append(("mem.", 1, lambda e: ("mem", e, ".", "m")))
KINDS.append(("mem->", 1, lambda e: ("mem", e, "->", "T0")))
KINDS.append(("cl", 1, lambda e: ("cl", TN_INT, ("il", [([], ("ie", e))], False))))
# quick tier uses one representative per grammar level for the *grand*child
REDUCED = ["bin||", "bin&", "bin==", "bin<<", "bin+", "bin*", "asg=", "asg+=", "cond", "comma", "pre-", "pre*", "pre++", "presizeof", "post++", "castint", "castT", "idx", "call1", "mem.", "cl"]
LEAVES = [A, ("sizeoft", TN_INT), ("sizeoft", TN_T), ("alignof", TN_PTR)]


def trees(n, kinds):
    """all trees with exactly n operator nodes over leaf A"""
    if n == 0:
        yield A
        return
    for name, ar, mk in kinds:
        for split in _splits(n - 1, ar):
            for kids in itertools.product(*[list(trees(k, kinds)) for k in split]):
                yield mk(*kids)


def _splits(total, parts):
    if parts == 1:
        yield (total,)
        return
    for i in range(total + 1):
        for rest in _splits(total - i, parts - 1):
            yield (i,) + rest


def ops_levels(e, acc):
    if isinstance(e, tuple):
        if e and isinstance(e[0], str) and (e[0] in M._LEVEL or e[0] == "bin"):
            if e[0] not in ("id", "const", "str"):
                acc.append(M.level(e))
        for x in e:
            ops_levels(x, acc)
    elif isinstance(e, list):
        for x in e:
            ops_levels(x, acc)
    return acc


def nontrivial(e):
    lv = ops_levels(e, [])
    return len(set(lv)) >= 2


def check_expr(e, ctx_i, mode, st, pm=0, subcheck="expr"):
    name, mk = EXPR_CONTEXTS[ctx_i]
    tu = M.freshen(mk(e))
    st.evaluations += 1
    src, _ = check_unit(tu, mode, M.paren_from_mask(pm), subcheck=subcheck, case=(e, ctx_i, mode, pm))
    return src


def enum_shard(arg):
    n, first_kind, kinds_name, rotate = arg
    st = Stats()
    kinds = KINDS if kinds_name == "full" else [k for k in KINDS if k[0] in REDUCED]
    name, ar, mk = first_kind_lookup(first_kind)
    idx = 0
    for split in _splits(n - 1, ar):
        for kids in itertools.product(*[list(trees(k, kinds)) for k in split]):
            e = mk(*kids)
            nt = nontrivial(e)
            ctxs = range(len(EXPR_CONTEXTS)) if not rotate else [idx % len(EXPR_CONTEXTS)]
            idx += 1
            for ci in ctxs:
                for mode in ("min", "full"):
                    try:
                        src = check_expr(e, ci, mode, st)
                    except CheckFailure as f:
                        st.failures.append(f.failure)
                        if len(st.failures) > 50:
                            return st
                        continue
                    if nt:
                        st.nontrivial += 1
                    if idx % 4001 == 1 and mode == "min":
                        st.sample(src.split("\n", 1)[1])
    return st


def first_kind_lookup(name):
    for k in KINDS:
        if k[0] == name:
            return k
    raise KeyError(name)


def leaf_shard(_):
    """every leaf kind and constant spelling in every context"""
    st = Stats()
    leaves = LEAVES + [("const", v, t) for v, t in gen.INT_CONSTS + gen.FLOAT_CONSTS + gen.CHAR_CONSTS] + [("str", list(s)) for s in gen.STRINGS]
    leaves += [("offsetof", TN_T, ["m", (".", "next"), ("[", A)]), ("call", ("id", "g"), []), ("cl", TN_T, ("il", [([(".", "m")], ("ie", A))], True))]
    wrappers = [lambda x: x, lambda x: ("bin", "+", x, A), lambda x: ("pre", "-", x), lambda x: ("cast", TN_T, x), lambda x: ("comma", [x, ("comma", [A, x])]), lambda x: ("post", "++", x), lambda x: ("mem", x, ".", "m"), lambda x: ("pre", "sizeof", x)]
    for lf in leaves[_::8]:
        for w in wrappers:
            e = w(lf)
            for ci in range(len(EXPR_CONTEXTS)):
                for mode in ("min", "full"):
                    try:
                        check_expr(e, ci, mode, st)
                        st.nontrivial += 1
                    except CheckFailure as f:
                        st.failures.append(f.failure)
    return st


def random_shard(arg):
    seed, n = arg
    st = Stats()

    def body(c):
        g = gen.G(c, quarantine=())
        e = gen.gen_expr(g, c.int(1, 6))
        ci = c.below(len(EXPR_CONTEXTS))
        mode = c.choice(["min", "red", "full"])
        pm = c.int(0, 0xFFFF) if mode == "red" else 0
        src = check_expr(e, ci, mode, st, pm)
        if nontrivial(e):
            st.nt(src)
        st.classes["ctx." + EXPR_CONTEXTS[ci][0]] += 1
        st.classes["mode." + mode] += 1
        for f, k in g.features.items():
            st.classes["feature." + f] += k
        if st.evaluations % 499 == 1:
            st.sample(src.split("\n", 1)[1])

    hyp_search(body, seed, n, st)
    return st


POSITION_UNIT = (
    "typedef int T; struct S { int m; } s, *p; int a, b, c, d, (*fp)(int);\n"
    "int r = (a + b) * c - (d); int q = (T)(a) + (*fp)(b) + sizeof(T) * sizeof (a) + (struct S){ (a) }.m + (p)->m;\n"
    "T (*g(T (x)))(int) { T * y = (T *)(&x); return (fp); }\n"
)


def position_shard(arg):
    """The same declarations behind N empty declarations (';'), for every N that
    moves each of their tokens across a power-of-two (and round decimal) token
    index: the tree must not depend on where in the token stream it stands."""
    from pycparser import c_parser

    from .. import reflex
    from ..astdump import dump, first_difference

    boundary = arg
    st = Stats()
    ntok = len(reflex.pp_tokens(POSITION_UNIT))
    ref = dump(c_parser.CParser().parse(POSITION_UNIT, "f.c"))
    for d in range(0, ntok + 2):
        n = boundary - d
        if n < 0:
            break
        src = ";" * n + "\n" + POSITION_UNIT
        st.evaluations += 1
        out = parse_outcome(src, "f.c", ("f.c",))
        case = ("position", n)
        if out[0] != "ast":
            st.failures.append(dict(subcheck="expr", case=case, text="';' x %d + unit" % n, detail="the unit is rejected behind %d empty declarations (its token %d is token %d of the input): %r" % (n, d, boundary, out[1:]), sig="position-rejected"))
            break
        got = dump(out[1])
        if got != ref:
            st.failures.append(dict(subcheck="expr", case=case, text="';' x %d + unit" % n, detail="behind %d empty declarations the tree differs at %s" % (n, first_difference(ref, got)), sig="position-differs"))
            break
        st.nontrivial += 1
    return st


def sliding_shard(arg):
    """The unit repeated R times behind j empty declarations, for every j below
    the unit's length: each of its tokens stands on EVERY token index up to
    R x length in one of these inputs - whatever happens every so many tokens
    (a buffer trimmed, a counter wrapped) meets every construct of the unit."""
    from pycparser import c_parser

    from .. import reflex
    from ..astdump import dump, first_difference

    j, reps = arg
    st = Stats()
    ref = dump(c_parser.CParser().parse(POSITION_UNIT, "f.c"))[1][1]
    src = ";" * j + "\n" + POSITION_UNIT * reps
    st.evaluations += 1
    out = parse_outcome(src, "f.c", ("f.c",))
    case = ("sliding", j, reps)
    if out[0] != "ast":
        st.failures.append(dict(subcheck="expr", case=case, text="';' x %d + unit x %d" % (j, reps), detail="%d copies of the unit behind %d empty declarations are rejected: %r" % (reps, j, out[1:]), sig="position-rejected"))
        return st
    got = dump(out[1])[1][1]
    n = len(ref)
    for k in range(reps):
        if got[k * n : (k + 1) * n] != ref:
            st.failures.append(dict(subcheck="expr", case=case, text="';' x %d + unit x %d" % (j, reps), detail="copy %d of the unit (behind %d empty declarations) has a different tree at %s" % (k, j, first_difference(ref, got[k * n : (k + 1) * n])), sig="position-differs"))
            break
    st.nontrivial += 1
    return st


def run(ctx):
    # exhaustive part
    jobs = [(1, k[0], "full", False) for k in KINDS] + [(2, k[0], "full", False) for k in KINDS]
    bounds = "all trees with <= 2 operator nodes (%d operator kinds) x %d contexts x {min, full}" % (len(KINDS), len(EXPR_CONTEXTS))
    if not ctx.quick:
        jobs += [(3, k[0], "full", True) for k in KINDS]
        bounds += "; all trees with 3 operator nodes, context rotated"
    else:
        jobs += [(3, k[0], "reduced", True) for k in KINDS if k[0] in REDUCED]
        bounds += "; trees with 3 operator nodes over %d representative kinds, context rotated" % len(REDUCED)
    ctx.map(enum_shard, jobs)
    ctx.map(leaf_shard, list(range(8)))
    ctx.map(random_shard, [(s, ctx.pick(1500, 30000)) for s in ctx.shard_seeds(16)])
    boundaries = [131072, 65536, 100000, 32768, 16384, 10000, 8192, 4096, 2048, 1024, 1000, 512, 256, 128, 100, 64]
    if not ctx.quick:
        boundaries = [262144, 200000, 3 * 65536] + boundaries
    ctx.map(position_shard, boundaries)
    from .. import reflex as _reflex

    ulen = len(_reflex.pp_tokens(POSITION_UNIT))
    ctx.map(sliding_shard, [(j, ctx.pick(120, 800)) for j in range(ulen)], chunksize=4)
    bounds += "; a fixed unit behind N empty declarations for every N that moves one of its tokens onto token index %s" % sorted(boundaries)
    ctx.exhaustive = True
    ctx.extra["exhaustive_bounds"] = bounds


def replay(subcheck, case):
    if case and case[0] == "sliding":
        r = sliding_shard((case[1], case[2]))
        if r.failures:
            raise CheckFailure(**r.failures[0])
        return
    if case and case[0] == "position":
        from pycparser import c_parser

        from ..astdump import dump

        ref = dump(c_parser.CParser().parse(POSITION_UNIT, "f.c"))
        out = parse_outcome(";" * case[1] + "\n" + POSITION_UNIT, "f.c", ("f.c",))
        if out[0] != "ast" or dump(out[1]) != ref:
            fail("expr", case, "';' x %d + unit" % case[1], "the unit parses differently behind %d empty declarations" % case[1], "position-differs")
        return
    e, ci, mode, pm = case
    check_expr(e, ci, mode, Stats(), pm, subcheck=subcheck)
