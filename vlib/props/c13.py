"""C13 - separate parser/generator instances never influence each other."""
import itertools
import os
import sys
import threading

from pycparser import c_ast, c_generator, c_parser
from pycparser.c_lexer import CLexer

from .. import cmodel as M
from .. import gen
from ..astdump import dump
from ..runner import CheckFailure, Stats, fail, hyp_search

ID = "C13"
RULE = (
    "Schedules. A scheduling lexer (CLexer subclass injected through the public lexer= parameter) parks its thread at the top of "
    "every token() call until a controller grants it a step, so an interleaving of 2-4 parses at token granularity is a value: "
    "exhaustive - all interleavings of program pairs with clashing names and 5-7 token() calls each; Hypothesis - schedules for "
    "2-4 generated/pool programs of up to ~60 tokens. The same controller drives CGenerator subclasses that yield at every "
    "visit() and two different NodeVisitor subclasses that yield at every visit(). Plus 4-8 free-running threads "
    "(switch interval 1e-6 s) each parsing and regenerating its own programs repeatedly; 4 (quick) / 24 (thorough) fresh interpreters in "
    "which 12 threads create the first parser objects of the process together. Oracle: every result (AST dump with "
    "coordinates / exception type+message / generated text / visit log) equals the result of the same call run alone; for parses "
    "'alone' is computed by a private copy of the pycparser package created for that one call (module- and class-level state "
    "of the classes under test cannot reach it), and for the pool programs additionally by a forked process without any parsing "
    "history; generator instances of four classes (stock CGenerator and subclasses overriding visit_ID / visit_Constant / "
    "visit_Pragma) used in drawn orders must each produce what their class produces in a private copy. Programs carry their own file names (f0.c, f1.c, ...) and directives with and without a file name. "
    "Non-trivial: the schedule switches between instances while one of them is inside a nested scope and the programs share a "
    "name with different meaning; distinct by construction (exhaustive) / by hash of (programs, schedule)."
    " Pool texts include parses failing at a stray '}' right after a declarator and a text using the same names undeclared. "
)
ASSUMPTIONS = [
    "the controller owns the schedule only at token()/visit() boundaries; races inside a single method are only reachable by the free-running part",
]

POOL = [
    "typedef int T; void f(void){ T * x; { int T; T * x; } }",
    "int T; void g(void){ T * y; (T)(y); }",
    'typedef char U;\n# 5 "u.h"\nU u1; struct S { U m; };',
    "int U; int v = sizeof(U);",
    "enum { T, U }; int w = T + U;",
    "void h(int T) { { typedef long T; T t; } T = 1; }",
    "typedef int T; T a, *b; int c = sizeof(T);\n#pragma pack(1)\nT d;",
    "void k(void) { int U; U = 1; if (U) { typedef int U; U z; } }",
    "typedef struct P { int q; } P; P p = { 1 }; int r = (P){ 2 }.q;",
    "int P; int s = P * 2;",
    # directives without a file name: the file stays the one given to parse()
    "int l1;\n#line 100\nint l2;\n# 7\nint l3 = l1 + @;",
    "typedef int T;\n#line 100\nT l4;\n# 7\nT l5;",
    '# 3 "inc.h"\nint l6;\n#line 100\nint l7;\n# 7\nint l8;',
    "#pragma once\n#line 100\nvoid l9(void) { T }",
    # parses that fail at an unbalanced brace right after a declarator, and a
    # program in which the same names are plain (undeclared) identifiers
    "typedef int T }",
    "typedef long U = }",
    "typedef char P, T }",
    "} typedef int T;",
    "void n2(void) { } } typedef int U; U * n3;",
    "void n1(void) { T * x; U * y; P * z; }",
    # far deeper than the interpreter's recursion limit allows (RecursionError alone
    # and under every schedule today): anything a parse does to interpreter-wide
    # settings while it runs shows when another parse overlaps it
    "int deep1 = " + "(" * 400 + "1" + ")" * 400 + ";",
    "void deep2(void) { " + "{ " * 300 + "} " * 300 + "}",
]
SHORT_PAIRS = [
    ("typedef int T ;", "int a = T ;"),
    ("typedef int T ; T b ;", "int T ;"),
    ("int f ( T ) ;", "typedef int T ;"),
    ('# 9 "x.h"\nint @ ;', "int ~ ;"),
    ("void f ( ) { T ; }", "typedef int T ;"),
    ("#line 9\nint a ;", "#line 9\nint @ ;"),
    ("typedef int T }", "void f ( ) { T * x ; }"),
    # thorough tier only (tens of thousands of interleavings each)
    ("typedef int T ; T b ;", "int T ; int c = T ;"),
    ("void f ( ) { int T ;", "typedef int T ; T x ;"),
]
NQUICK_PAIRS = 7


class _Abort(BaseException):
    pass


class Controller:
    """Runs n workers, each calling self.step(i) at its yield points; the
    controller grants steps following `schedule` (indices into the list of
    live workers).

    Only raw locks and plain assignments are used for the hand-over: a worker
    may be thousands of frames deep inside the parser, and anything that runs
    Python-level code while holding a shared lock (threading.Condition does)
    would leave that lock held for ever if a RecursionError hit it there."""

    STALL_SECONDS = 8.0

    def __init__(self, n):
        self.n = n
        self.state = ["running"] * n  # running | waiting | done
        self.turn = [threading.Lock() for _ in range(n)]
        for t in self.turn:
            t.acquire()
        self.wake = threading.Lock()  # poked by workers, slept on by the controller
        self.wake.acquire()
        self.trace = []
        self.context_switches = 0
        self.abort = False

    def _poke(self):
        try:
            self.wake.release()
        except RuntimeError:
            pass  # already poked

    def step(self, i):
        self.state[i] = "waiting"
        self._poke()
        if self.abort or not self.turn[i].acquire(True, 2 * self.STALL_SECONDS) or self.abort:
            raise _Abort()
        # (state[i] was set to "running" by the controller before it released turn[i])

    def _wait_until(self, ready):
        import time

        t0 = time.time()
        while not ready():
            self.wake.acquire(True, 0.05)
            if time.time() - t0 > self.STALL_SECONDS:
                return False
        return True

    def run(self, workers, schedule):
        res = [None] * self.n

        def wrap(i):
            try:
                res[i] = workers[i](i)
            except _Abort:
                res[i] = ("stalled",)
            except BaseException as e:  # noqa: BLE001
                res[i] = ("harness-exc", repr(e))
            self.state[i] = "done"
            self._poke()

        ths = [threading.Thread(target=wrap, args=(i,), daemon=True) for i in range(self.n)]
        for t in ths:
            t.start()
        k = 0
        last = None
        while True:
            # a worker that neither finishes nor reaches a yield point: the
            # instances are entangled (or dead-locked on each other)
            if not self._wait_until(lambda: all(s != "running" for s in self.state)):
                self.abort = True
                break
            live = [i for i in range(self.n) if self.state[i] != "done"]
            if not live:
                break
            j = live[schedule[k % len(schedule)] % len(live)] if schedule else live[0]
            k += 1
            if last is not None and j != last:
                self.context_switches += 1
            last = j
            self.trace.append(j)
            self.state[j] = "running"
            self.turn[j].release()
            if not self._wait_until(lambda: self.state[j] != "running"):
                self.abort = True
                break
        if self.abort:
            for i in range(self.n):
                try:
                    self.turn[i].release()
                except RuntimeError:
                    pass
        for t in ths:
            t.join(2.0)
        return [("stalled",) if (r is None) else r for r in res]


def sched_lexer(ctl, i):
    class L(CLexer):
        def token(self):
            ctl.step(i)
            return CLexer.token(self)

    return L


def parse_result(parser, src, fname):
    try:
        return ("ok", dump(parser.parse(src, fname), True))
    except RecursionError:
        return ("recursion",)
    except Exception as e:  # noqa: BLE001
        return ("err", type(e).__name__, str(e))


def run_parsers(srcs, schedule):
    n = len(srcs)
    ctl = Controller(n)
    workers = [lambda i: parse_result(c_parser.CParser(lexer=sched_lexer(ctl, i)), srcs[i], "f%d.c" % i) for _ in range(n)]
    res = ctl.run(workers, schedule)
    return res, ctl


def solo_parsers(srcs, st=None):
    """The same calls run alone: each by a private copy of the package made
    for that one call (vlib/pristine.py) - a reference computed with the
    classes under test would share their module- and class-level state."""
    from ..pristine import private_call

    if st is not None:
        st.classes["references_from_private_copies"] += len(srcs)
    return [private_call("parse_dump", s, "f%d.c" % i) for i, s in enumerate(srcs)]


def process_reference_shard(arg):
    """For the pool programs the reference of solo_parsers must equal the answer
    of a process without any history (fork per answer, vlib/pristine.py)."""
    from ..pristine import PristineUnavailable, Pristine, private_call

    lo, hi = arg
    st = Stats()
    progs = (POOL + [x for pair in SHORT_PAIRS for x in pair])[lo:hi]
    p = Pristine()
    try:
        for i, s in enumerate(progs):
            fname = "f%d.c" % (i % 4)
            try:
                ref = p.call("parse_dump", s, fname)
            except PristineUnavailable:
                st.classes["process_references_unavailable"] += 1
                continue
            st.evaluations += 1
            st.classes["process_references"] += 1
            here = parse_result(c_parser.CParser(), s, fname)
            priv = private_call("parse_dump", s, fname)
            if here != ref or priv != ref:
                st.failures.append(dict(subcheck="parsers", case=("parsers", [s], [0]), text=s, detail="result in the checking process %s / by a private copy %s differs from the result of a process without history" % (here[:2] if here[0] != "ok" else "ok", priv[:2] if priv[0] != "ok" else "ok"), sig="history-differs"))
    finally:
        p.close()
    return st


def check_parsers(srcs, schedule, st, subcheck="parsers"):
    solo = solo_parsers(srcs, st)
    res, ctl = run_parsers(srcs, schedule)
    if ("stalled",) in res:
        # a stall may be machine load (threads not scheduled for seconds): only a
        # stall that repeats with a ten times longer limit counts
        st.classes["stalls_retried"] += 1
        old = Controller.STALL_SECONDS
        Controller.STALL_SECONDS = 10 * old
        try:
            res, ctl = run_parsers(srcs, schedule)
        finally:
            Controller.STALL_SECONDS = old
    st.evaluations += 1
    case = ("parsers", list(srcs), list(schedule))
    if res != solo:
        for i, (a, b) in enumerate(zip(res, solo)):
            if a != b:
                where = ""
                if a[0] == "ok" and b[0] == "ok":
                    from ..astdump import first_difference

                    where = "; ASTs (with coordinates) first differ at %s" % (first_difference(a[1], b[1]),)
                fail(subcheck, case, "\n-----\n".join(srcs), "parser %d under schedule %s: %s, alone: %s%s" % (i, ctl.trace[:40], (a[:2] if a[0] != "ok" else "ok"), (b[:2] if b[0] != "ok" else "ok"), where), "interleaving-differs")
    return ctl




def generator_classes(base):
    """a stock generator and two subclasses with their own visit_X methods, built
    on `base` (the CGenerator under test, or the one of a private copy)"""

    class Renamer(base):
        def visit_ID(self, n):
            return "my_" + n.name

    class Hexer(base):
        def visit_Constant(self, n):
            try:
                return hex(int(n.value, 0))
            except (ValueError, TypeError):
                return n.value

    class Quiet(Renamer):
        def visit_Pragma(self, n):
            return ""

    return [base, Renamer, Hexer, Quiet]


def check_generator_subclasses(srcs, order, st):
    """Generator instances of different classes (a stock CGenerator and
    subclasses overriding visit_ID / visit_Constant / visit_Pragma) used one
    after the other in a drawn order: each must produce what the same class
    produces in a private copy of the package that has generated nothing else."""
    from ..pristine import drop_package, fresh_package

    refs = {}
    if True:
        # the reference: every class on every program, each class in its own copy
        for ci in range(4):
            n2, cp2, cg2, _, _ = fresh_package()
            try:
                cls2 = generator_classes(cg2.CGenerator)[ci]
                for si, s in enumerate(srcs):
                    try:
                        ast2 = cp2.CParser().parse(s, "f.c")
                        refs[(si, ci)] = cls2().visit(ast2)
                    except RecursionError:
                        refs[(si, ci)] = None
                    except Exception as e:  # noqa: BLE001
                        refs[(si, ci)] = ("exc", type(e).__name__)
            finally:
                drop_package(n2)
    classes = generator_classes(c_generator.CGenerator)
    asts = {}
    for si, s in enumerate(srcs):
        try:
            asts[si] = c_parser.CParser().parse(s, "f.c")
        except Exception:  # noqa: BLE001
            pass
    for si, ci in order:
        if si not in asts or refs.get((si, ci)) is None:
            continue
        st.evaluations += 1
        try:
            got = classes[ci]().visit(asts[si])
        except RecursionError:
            continue
        except Exception as e:  # noqa: BLE001
            got = ("exc", type(e).__name__)
        if got != refs[(si, ci)]:
            fail("generators", ("gensub", list(srcs), [list(o) for o in order]), srcs[si], "a %s instance used after instances of other generator classes (order %s) produces text different from the same class used alone" % (classes[ci].__name__, order[:12]), "generator-class-state")


def check_generators(asts, schedule, st):
    """interleave CGenerator.visit calls of several generators"""
    n = len(asts)
    ctl = Controller(n)

    def mk(i):
        class Gn(c_generator.CGenerator):
            def visit(self, node):
                ctl.step(i)
                return c_generator.CGenerator.visit(self, node)

        return Gn

    def work(i):
        try:
            return ("ok", mk(i)(reduce_parentheses=bool(i % 2)).visit(asts[i]))
        except RecursionError:
            return ("recursion",)
        except Exception as e:  # noqa: BLE001
            return ("err", type(e).__name__)

    def solo(i):
        try:
            return ("ok", c_generator.CGenerator(reduce_parentheses=bool(i % 2)).visit(asts[i]))
        except RecursionError:
            return ("recursion",)
        except Exception as e:  # noqa: BLE001
            return ("err", type(e).__name__)

    res = ctl.run([work] * n, schedule)
    if ("stalled",) in res:
        st.classes["stalls_retried"] += 1
        old = Controller.STALL_SECONDS
        Controller.STALL_SECONDS = 10 * old
        try:
            ctl = Controller(n)
            res = ctl.run([work] * n, schedule)
        finally:
            Controller.STALL_SECONDS = old
    st.evaluations += 1
    exp = [solo(i) for i in range(n)]
    if res != exp:
        fail("generators", ("generators", [c_generator.CGenerator().visit(a) if True else "" for a in []], list(schedule)), "<%d ASTs>" % n, "interleaved CGenerator output differs from the output produced alone (schedule %s)" % (ctl.trace[:40],), "generator-interleaving")


def check_visitors(asts, schedule, st):
    n = len(asts)
    ctl = Controller(n)

    def mkvis(i, yielding):
        log = []

        def visit(self, node):
            if yielding:
                ctl.step(i)
            return c_ast.NodeVisitor.visit(self, node)

        ns = {"visit": visit}
        # two different subclasses: worker parity decides which classes are intercepted
        names = ["ID", "Decl", "BinaryOp"] if i % 2 == 0 else ["Constant", "Decl", "If", "ID"]
        for nm in names:

            def m(self, node, nm=nm):
                log.append((nm, type(node).__name__, i))
                c_ast.NodeVisitor.generic_visit(self, node)

            ns["visit_" + nm] = m
        return type("V%d" % (i % 2), (c_ast.NodeVisitor,), ns)(), log

    def work(i):
        v, log = mkvis(i, True)
        v.visit(asts[i])
        return log

    def solo(i):
        v, log = mkvis(i, False)
        v.visit(asts[i])
        return log

    res = ctl.run([work] * n, schedule)
    if ("stalled",) in res:
        st.classes["stalls_retried"] += 1
        old = Controller.STALL_SECONDS
        Controller.STALL_SECONDS = 10 * old
        try:
            ctl = Controller(n)
            res = ctl.run([work] * n, schedule)
        finally:
            Controller.STALL_SECONDS = old
    st.evaluations += 1
    try:
        exp = [solo(i) for i in range(n)]
    except _Abort:
        # even a visitor run alone ended up inside another instance's yield point
        exp = None
    if res != exp:
        fail("visitors", ("visitors", n, list(schedule)), "<%d ASTs>" % n, "interleaved NodeVisitor subclasses logged different visit_X calls than when run alone%s" % (" (a visitor run alone called into another instance)" if exp is None else ""), "visitor-interleaving")


def interleavings(a, b):
    """all sequences with a zeros and b ones"""
    for pos in itertools.combinations(range(a + b), a):
        s = [1] * (a + b)
        for p in pos:
            s[p] = 0
        yield s


def ncalls(src):
    n = [0]

    class L(CLexer):
        def token(self):
            n[0] += 1
            return CLexer.token(self)

    try:
        c_parser.CParser(lexer=L).parse(src, "f.c")
    except Exception:  # noqa: BLE001
        pass
    return n[0]


def exhaustive_shard(arg):
    pi, part, nparts = arg
    st = Stats()
    a, b = SHORT_PAIRS[pi]
    na, nb = ncalls(a), ncalls(b)
    for k, sched in enumerate(interleavings(na, nb)):
        if k % nparts != part:
            continue
        # schedule entries are indices into the list of LIVE workers; translate
        # the 0/1 sequence while both are alive, the tail is forced anyway
        try:
            ctl = check_parsers([a, b], sched, st)
            if ctl.context_switches >= 2:
                st.nontrivial += 1
        except CheckFailure as f:
            st.failures.append(f.failure)
            if len(st.failures) > 10:
                break
    st.notes["interleavings_pair_%d" % pi] = 0
    if part == 0:
        st.sample(dict(programs=[a, b], token_calls=[na, nb], schedules="all C(%d,%d) interleavings" % (na + nb, na)))
    return st


def _nested_and_shared(srcs):
    import re

    names = [set(re.findall(r"\b[TUP]\b", s)) for s in srcs]
    shared = any(names[i] & names[j] for i in range(len(srcs)) for j in range(i + 1, len(srcs)))
    return shared and any("{" in s for s in srcs)


def random_shard(arg):
    seed, n = arg
    st = Stats()

    def body(c):
        k = c.int(2, 4)
        srcs = []
        for _ in range(k):
            if c.chance(0.6):
                srcs.append(c.choice(POOL))
            else:
                g = gen.G(c, quarantine=(), max_nodes=40)
                tu = M.freshen(gen.gen_unit(g, 1))
                r = M.Renderer("min")
                r.unit(tu)
                srcs.append(gen.PRELUDE + "\n" + M.text_of(r.toks))
        schedule = [c.below(k) for _ in range(c.int(1, 40))]
        what = c.below(4)
        if what <= 1:
            ctl = check_parsers(srcs, schedule, st)
            if ctl.context_switches >= 3 and _nested_and_shared(srcs):
                st.nt((srcs, schedule))
            st.classes["parser_schedules"] += 1
        else:
            asts = []
            for s in srcs:
                try:
                    asts.append(c_parser.CParser().parse(s, "f.c"))
                except Exception:  # noqa: BLE001
                    pass
            if len(asts) >= 2:
                if what == 2:
                    check_generators(asts, schedule, st)
                    st.classes["generator_schedules"] += 1
                    if c.chance(0.25):
                        order = [(c.below(len(srcs)), c.below(4)) for _ in range(c.int(2, 8))]
                        check_generator_subclasses(srcs, order, st)
                        st.classes["generator_subclass_orders"] += 1
                else:
                    check_visitors(asts, schedule, st)
                    st.classes["visitor_schedules"] += 1
                st.nt(("gv", what, srcs, schedule))
        if st.evaluations % 97 == 1:
            st.sample(dict(programs=[s[:80] for s in srcs], schedule=schedule[:20]))

    hyp_search(body, seed, n, st)
    return st


def free_threads_shard(arg):
    nthreads, rounds = arg
    st = Stats()
    srcs = [POOL[i % len(POOL)] for i in range(nthreads)]

    import tempfile

    from pycparser import parse_file

    tmpd = tempfile.mkdtemp(prefix="c13f_")
    paths = []
    for i, s in enumerate(srcs):
        pth = os.path.join(tmpd, "t%d.c" % i)
        with open(pth, "w") as f:
            f.write(s)
        paths.append(pth)

    def work_solo(i):
        p = c_parser.CParser()
        out = []
        try:
            a = p.parse(srcs[i], "t%d.c" % i)
            out.append(("ok", dump(a, True), c_generator.CGenerator().visit(a)))
        except Exception as e:  # noqa: BLE001
            out.append(("err", type(e).__name__, str(e)))
        # the convenience entry point: every call without parser= is a parse of its own
        try:
            out.append(("ok", dump(parse_file(paths[i]), True)))
        except Exception as e:  # noqa: BLE001
            out.append(("err", type(e).__name__, str(e).replace(tmpd, "")))
        return out

    exp = [work_solo(i) for i in range(nthreads)]
    old = sys.getswitchinterval()
    sys.setswitchinterval(1e-6)
    res = [None] * nthreads
    bad = []

    def work(i):
        for _ in range(rounds):
            r = work_solo(i)
            if r != exp[i]:
                bad.append(i)
                return

    try:
        ths = [threading.Thread(target=work, args=(i,)) for i in range(nthreads)]
        for t in ths:
            t.start()
        for t in ths:
            t.join()
    finally:
        sys.setswitchinterval(old)
    import shutil

    shutil.rmtree(tmpd, ignore_errors=True)
    st.evaluations += nthreads * rounds
    st.classes["free_running_parses"] += nthreads * rounds
    if bad:
        st.failures.append(dict(subcheck="free-threads", case=("free", nthreads, rounds), text="\n-----\n".join(srcs), detail="threads %s produced a result different from the solo run" % sorted(set(bad)), sig="free-thread-differs"))
    return st


COLD_CHILD = r"""
import sys, threading, json
sys.path.insert(0, sys.argv[1])
sys.setswitchinterval(1e-6)
from pycparser import c_parser
srcs = json.loads(sys.argv[2])
n = len(srcs)
res = [None] * n
bar = threading.Barrier(n)
def work(i):
    bar.wait()
    try:
        ast = c_parser.CParser().parse(srcs[i], "t%d.c" % i)
        res[i] = ["ok", len(ast.ext), [str(e.coord) for e in ast.ext][:40]]
    except BaseException as e:
        res[i] = ["err", type(e).__name__, str(e)[:200]]
ths = [threading.Thread(target=work, args=(i,)) for i in range(n)]
[t.start() for t in ths]
[t.join() for t in ths]
print(json.dumps(res))
"""


def cold_start_shard(arg):
    """The very first parser objects of a process, created by threads that start
    together: whatever the package sets up lazily on first use must not be
    observable.  Each attempt is a fresh interpreter; the expected results come
    from private copies in this process."""
    import json
    import subprocess

    from ..pristine import private_call

    attempt, nthreads = arg
    st = Stats()
    srcs = [POOL[(attempt * 3 + i) % 14] for i in range(nthreads)]
    exp = []
    for i, s in enumerate(srcs):
        r = private_call("parse_dump", s, "t%d.c" % i)
        exp.append(("ok",) if r[0] == "ok" else ("err", r[1], r[2][:200]) if r[0] == "err" else ("recursion",))
    env = dict(os.environ, PYTHONHASHSEED="0", PYTHONDONTWRITEBYTECODE="1")
    p = subprocess.run([sys.executable, "-c", COLD_CHILD, os.environ.get("PYCPARSER_REPO", "/repo"), json.dumps(srcs)], capture_output=True, text=True, env=env, timeout=600)
    st.evaluations += nthreads
    st.classes["cold_start_parses"] += nthreads
    try:
        got = json.loads(p.stdout.strip().splitlines()[-1])
    except Exception:  # noqa: BLE001
        st.failures.append(dict(subcheck="harness", case=("cold", attempt, nthreads), text="", detail="cold-start child gave no result (rc=%s): %s" % (p.returncode, p.stderr[-300:]), sig="harness-cold"))
        return st
    for i, (g, e) in enumerate(zip(got, exp)):
        same = (g[0] == "ok" and e[0] == "ok") or (g[0] == "err" and e[0] == "err" and g[1] == e[1] and g[2] == e[2]) or (g[0] == "err" and g[1] == "RecursionError" and e[0] == "recursion")
        if not same:
            st.failures.append(dict(subcheck="free-threads", case=("cold", attempt, nthreads), text=srcs[i], detail="thread %d of %d parsers created together as the first parsers of a fresh process: %s, alone: %s" % (i, nthreads, g[:3], e[:3]), sig="cold-start-differs"))
            break
    st.nontrivial += 1
    return st


def run(ctx):
    nparts = 4
    nprog = len(POOL) + 2 * len(SHORT_PAIRS)
    if ctx.quick:
        lo = (ctx.seed * 6) % nprog
        ctx.map(process_reference_shard, [(lo, lo + 3), (max(0, lo - 3), lo)])
    else:
        ctx.map(process_reference_shard, [(i, i + 3) for i in range(0, nprog, 3)])
    npairs = ctx.pick(NQUICK_PAIRS, len(SHORT_PAIRS))
    ctx.map(exhaustive_shard, [(pi, p, nparts) for pi in range(npairs) for p in range(nparts)])
    ctx.map(random_shard, [(s, ctx.pick(150, 2500)) for s in ctx.shard_seeds(16)])
    ctx.map(free_threads_shard, [(4, ctx.pick(40, 400)), (8, ctx.pick(25, 300))])
    ctx.map(cold_start_shard, [(ctx.seed * 7 + a, 12) for a in range(ctx.pick(4, 24))])
    ctx.exhaustive = True
    ctx.extra["exhaustive_bounds"] = "all interleavings (token() granularity) of %d clashing program pairs" % npairs


def replay(subcheck, case):
    st = Stats()
    if case[0] == "parsers":
        check_parsers(case[1], case[2], st)
    elif case[0] == "gensub":
        check_generator_subclasses(list(case[1]), [tuple(o) for o in case[2]], st)
    elif case[0] == "cold":
        r = cold_start_shard((case[1], case[2]))
        if r.failures:
            raise CheckFailure(**r.failures[0])
    elif case[0] == "free":
        r = free_threads_shard((case[1], case[2]))
        if r.failures:
            raise CheckFailure(**r.failures[0])
