"""C09 - tokenisation is lossless, longest-match and position-exact; the
lexer always makes progress and never skips characters silently."""
import itertools

from pycparser.c_lexer import CLexer

from .. import reflex
from ..runner import CheckFailure, Stats, fail, hyp_search

ID = "C09"
RULE = (
    "(A) Hypothesis-generated sequences (1-30 tokens) over the full vocabulary (45 keywords, 46 punctuators, identifiers "
    "incl. '$' and literal-prefix look-alikes, names reported as typedef names through type_lookup_func - which also answers "
    "'yes' for keyword spellings -, 40 literal spellings of every kind) laid out with no blank where the reference tokenizer "
    "says the pair re-tokenises to itself, or any mix of blanks/tabs/newlines, with #pragma lines and linemarkers of 8 forms on "
    "their own lines anywhere; the bare CLexer must return exactly those tokens: class, spelling, line (re-based by the last "
    "#line) and column. (B) exhaustive: all ordered token pairs, adjacent where allowed and blank-separated. (C) exhaustive: all "
    "strings of length <= 4 (quick) / 5 (thorough) over a 20-character alphabet: token() is called at most len+2 times, tokens "
    "appear in order at their reported positions, and every character outside tokens is blank, lies in a directive line, or was "
    "reported through the error callback. Non-trivial: (A) >= 1 directive line and >= 1 adjacency without blank; (B) pairs where "
    "longest match matters (adjacent); (C) strings with >= 1 non-blank character outside every token. Distinct by hash of the "
    "text (A) / by construction (B, C)."
)
ASSUMPTIONS = ["reference pp-tokenizer and classifiers of vlib/reflex.py (C99 6.4 + the documented extensions)"]

IDENTS = ["a", "x1", "_y", "foo$bar", "L", "u", "U", "u8", "e", "p", "x", "E1", "l", "f", "ul", "b", "LL", "$", "int_", "Int", "_bool", "line", "pragma", "alignas", "alignof", "static_assert", "thread_local", "bool", "noreturn", "complex", "atomic", "typeof", "asm", "_BOOL", "INT", "defined"]
TYPEIDS = ["T", "T2", "size_t"]
# the callback also claims keywords are types: the lexer must not ask (or must ignore the answer)
LOOKUP_YES = set(TYPEIDS) | {"int", "_Bool", "typedef", "sizeof", "_Atomic", "offsetof"}
LITS = [
    "1", "0", "017", "0x1F", "0b101", "42uLL", "0xeL", "0XABCDEFu", "1.5", ".5", "1.", "1e+5", "2E-3f", "0x1.8p3", "0xAp-2L", "00.5", "09e1",
    "'a'", "'\\n'", "'\\''", "L'x'", "u8'x'", "u'x'", "U'x'", "'ab'", "'abcd'", "'\\x41'", "'\\123'",
    '"s"', '""', '"a\\"b"', '"// not comment"', '"/* x */"', 'L"w"', 'u8"s"', 'u"s"', 'U"s"', '"#pragma"', '"\\\\"', '"a\\\\"',
]  # fmt: skip
VOCAB = [(k, reflex.KWTYPE[k]) for k in reflex.KEYWORDS] + list(reflex.PUNCT.items()) + [(i, "ID") for i in IDENTS] + [(t, "TYPEID") for t in TYPEIDS]
for _l in LITS:
    _c = reflex.classify(_l, lenient=True)
    assert len(_c) == 1, (_l, _c)
    VOCAB.append((_l, next(iter(_c))))

LINE_FORMS = [
    "# %d", "#line %d", '# %d "g.h"', '#line %d "d/e.c"', '# %d "g.h" 1 3', '  #  %d "x.h"', "#\tline %d", '# %d "a b.c" 2',
    # file names spelled with escapes (Windows paths): a name ending in an escaped backslash, an escaped quote inside, the empty name
    '# %d "C:\\\\dir\\\\"', '#line %d "\\\\"', '# %d "q\\"r.c" 1', '# %d ""', '#line %d "..\\\\inc\\\\a.h" 3 4', '# %d "\\\\\\\\srv\\\\share\\\\" 2',
]
PRAGMA_BODIES = ["", "once", "omp parallel for", "pack(1) ", '"str" { } @ `', "x\ty", "# 3", "line 5"]


def lex_all(text, filename="f.c"):
    errs = []
    calls = [0]
    lx = CLexer(lambda m, l, c: errs.append((m, l, c, calls[0])), lambda: None, lambda: None, lambda n: n in LOOKUP_YES)
    lx.input(text, filename)
    toks = []
    limit = len(text) + 3
    while True:
        calls[0] += 1
        t = lx.token()
        if t is None:
            break
        toks.append((t.type, t.value, t.lineno, t.column))
        if calls[0] > limit:
            return toks, errs, calls[0], lx, False
    return toks, errs, calls[0], lx, True


def build_sequence(c):
    n = c.int(1, 30)
    text = []
    exp = []
    st = dict(line=1, col=1, bol=True, prev=None, ndir=0, nadj=0, fname="f.c")

    def emit(s):
        for ch in s:
            text.append(ch)
            if ch == "\n":
                st["line"] += 1
                st["col"] = 1
                st["bol"] = True
            else:
                st["col"] += 1
                st["bol"] = False

    for _ in range(n):
        sp, ty = c.choice(VOCAB) if c.chance(0.8) else c.choice(VOCAB[45:91])
        r = c.below(100)
        if r < 8:
            if not st["bol"]:
                emit("\n")
            nl = c.int(1, 5000)
            form = c.choice(LINE_FORMS)
            text.append(form % nl + "\n")
            st["line"] = nl
            st["col"] = 1
            st["bol"] = True
            st["prev"] = None
            st["run"] = []
            st["ndir"] += 1
        elif r < 14:
            if not st["bol"]:
                emit("\n")
            lead = c.choice(["", "  ", "\t"])
            mid = c.choice(["", " ", "  ", "\t"])
            body = c.choice(PRAGMA_BODIES)
            ws2 = c.choice([" ", "  ", "\t"])
            s = lead + "#" + mid + "pragma" + ws2 + body
            pcol = len(lead) + 1 + len(mid) + 1
            exp.append(("PPPRAGMA", "pragma", st["line"], pcol))
            if body:
                exp.append(("PPPRAGMASTR", body, st["line"], pcol + 6 + len(ws2)))
            text.append(s + "\n")
            st["line"] += 1
            st["col"] = 1
            st["bol"] = True
            st["prev"] = None
            st["run"] = []
            st["ndir"] += 1
        ws = c.choice(["", "", " ", "  ", "\t", "\n", "\n  ", " \n\t", " \t "])
        if ws == "":
            # adjacency is decided on the whole run of tokens written without a
            # blank so far ('.' '.' '.' would re-tokenise as '...')
            run = st.get("run") or []
            if st["prev"] is not None and reflex.pp_tokens("".join(run) + sp) != run + [sp]:
                ws = " "
            elif st["prev"] is not None:
                st["nadj"] += 1
        if ws != "" or st["prev"] is None:
            st["run"] = []
        st.setdefault("run", []).append(sp)
        emit(ws)
        exp.append((ty, sp, st["line"], st["col"]))
        emit(sp)
        st["prev"] = sp
    return "".join(text), exp, st


def check_sequence(text, exp, case):
    got, errs, ncalls, lx, finished = lex_all(text)
    if not finished:
        fail("sequence", case, text, "token() called more than len(text)+2 times", "no-progress")
    if errs:
        fail("sequence", case, text, "error callback fired on a valid token sequence: %r" % (errs[:2],), "spurious-error")
    if got != exp:
        for i, (a, b) in enumerate(zip(exp, got)):
            if a != b:
                what = "class" if a[0] != b[0] else "spelling" if a[1] != b[1] else "line" if a[2] != b[2] else "column"
                fail("sequence", case, text, "token %d: expected %r got %r" % (i, a, b), "token-" + what)
        fail("sequence", case, text, "expected %d tokens, got %d" % (len(exp), len(got)), "token-count")


def lex_reused(lx, text, errs):
    lx.input(text, "f.c")
    toks = []
    for _ in range(len(text) + 3):
        t = lx.token()
        if t is None:
            break
        toks.append((t.type, t.value, t.lineno, t.column))
    return toks


def seq_shard(arg):
    seed, n = arg
    st = Stats()
    # one long-lived lexer per shard: before every case it is left in an
    # abandoned state (a Hypothesis-chosen number of tokens of a pragma-rich text
    # consumed), then given the new text through input()
    rerrs = []
    reused = CLexer(lambda m, l, c: rerrs.append((m, l, c)), lambda: None, lambda: None, lambda n: n in LOOKUP_YES)
    junk = "int a =\n#pragma omp parallel for\n 1 ;\n# 7 \"old.h\"\n#pragma once\nx y z"

    def body(c):
        text, exp, info = build_sequence(c)
        st.evaluations += 1
        check_sequence(text, exp, ("seq", text, exp))
        k = c.int(0, 12)
        reused.input(junk, "old.c")
        for _ in range(k):
            if reused.token() is None:
                break
        del rerrs[:]
        got = lex_reused(reused, text, rerrs)
        if got != exp or rerrs:
            fail("sequence", ("reuse", k, text, exp), text, "a reused CLexer (abandoned after %d tokens of another text, then input()) returned %r..., errors %r; expected %r..." % (k, got[:3], rerrs[:1], exp[:3]), "reused-lexer")
        if info["ndir"] >= 1 and info["nadj"] >= 1:
            st.nt(text)
        st.classes["with_directive" if info["ndir"] else "no_directive"] += 1
        st.classes["adjacent_pairs"] += info["nadj"]
        if st.evaluations % 499 == 1:
            st.sample(text[:300])

    hyp_search(body, seed, n, st)
    return st


def pair_shard(i):
    st = Stats()
    a, ta = VOCAB[i]
    for b, tb in VOCAB:
        for sep in ("", " ", "\n", "\t"):
            if sep == "" and not reflex.adjacent_ok(a, b):
                continue
            text = a + sep + b
            if sep == "\n":
                exp = [(ta, a, 1, 1), (tb, b, 2, 1)]
            else:
                exp = [(ta, a, 1, 1), (tb, b, 1, 1 + len(a) + len(sep))]
            st.evaluations += 1
            try:
                check_sequence(text, exp, ("seq", text, exp))
            except CheckFailure as f:
                st.failures.append(f.failure)
                continue
            if sep == "":
                st.nontrivial += 1
    return st


# ---------------------------------------------------------------------------
# directive names: only '#pragma' and '#line' / '# <number>' are directives; any
# other word after '#' (including words that merely start with 'pragma' or
# 'line') leaves '#' an ordinary PPHASH token followed by ordinary tokens
# ---------------------------------------------------------------------------
DIR_WORDS = ["pragma", "pragmas", "pragma_once", "pragma7", "pragmatic", "Pragma", "PRAGMA", "prag", "line", "lines", "line_", "line7", "linex", "Line",
             "define", "include", "if", "endif", "error", "x", "_", "lin", "p"]  # fmt: skip
DIR_RESTS = ["", " ", " once", " 3", ' 3 "f.h"', "(", " a b", "\t1"]


def directive_shard(_):
    st = Stats()
    for lead in ("", " ", "\t"):
        for mid in ("", " ", "\t "):
            for w in DIR_WORDS:
                for rest in DIR_RESTS:
                    line = lead + "#" + mid + w + rest
                    text = "a\n" + line + "\nb"
                    st.evaluations += 1
                    got, errs, ncalls, lx, finished = lex_all(text)
                    case = ("directive", text)
                    is_pragma = w == "pragma" and (rest == "" or not (rest[0].isalnum() or rest[0] in "_$"))
                    is_line = (w == "line" and (rest == "" or not (rest[0].isalnum() or rest[0] in "_$")))
                    vals = [g[1] for g in got]
                    types = [g[0] for g in got]
                    if is_pragma:
                        body = rest.strip(" \t")
                        exp_types = ["ID", "PPPRAGMA"] + (["PPPRAGMASTR"] if body else []) + ["ID"]
                        if types != exp_types or (body and vals[2] != rest.lstrip(" \t")):
                            st.failures.append(dict(subcheck="directive", case=case, text=text, detail="'#pragma' line lexed as %r" % (got,), sig="pragma-line"))
                        else:
                            st.nontrivial += 1
                        continue
                    if is_line:
                        # a #line directive (well-formed or reported through the error callback): never tokens
                        if types != ["ID", "ID"]:
                            st.failures.append(dict(subcheck="directive", case=case, text=text, detail="'#line' line produced tokens %r" % (got,), sig="line-directive-tokens"))
                        else:
                            st.nontrivial += 1
                        continue
                    # not a directive: '#' must come back as PPHASH followed by the word's tokens
                    ref = reflex.pp_tokens(w + rest)
                    exp_vals = ["a", "#"] + (ref or []) + ["b"]
                    if "PPHASH" not in types or "PPPRAGMA" in types or vals != exp_vals:
                        st.failures.append(dict(subcheck="directive", case=case, text=text, detail="'#%s' is neither #line nor #pragma: expected '#' (PPHASH) and the tokens %r, got %r" % (w, ref, got), sig="not-a-directive"))
                    else:
                        st.nontrivial += 1
    return st


# ---------------------------------------------------------------------------
# progress part
# ---------------------------------------------------------------------------
ALPHA = ["a", "1", "0", "x", ".", "'", '"', "\\", "#", "/", "*", "+", "-", "<", "=", " ", "\n", "@", "L", "{"]


def check_progress(text, st=None):
    got, errs, ncalls, lx, finished = lex_all(text)
    case = ("progress", text)
    if not finished or ncalls > len(text) + 2:
        fail("progress", case, text, "token() called %d times on %d characters" % (ncalls, len(text)), "no-progress")
    # after the end, token() keeps returning None
    if lx.token() is not None:
        fail("progress", case, text, "token() returned a token after None", "token-after-end")
    if "#" not in text and not errs:
        # no directive and no error: reported positions must be exact (after an
        # error the property only asks for progress and reporting, not positions): line = 1 + newlines before, column from line start
        starts = [0]
        for i, ch in enumerate(text):
            if ch == "\n":
                starts.append(i + 1)
        pos = 0
        err_calls = sorted(e[3] for e in errs)
        for k, (ty, val, line, col) in enumerate(got):
            if line < 1 or line > len(starts):
                fail("progress", case, text, "token %r reports line %d" % (val, line), "bad-position")
            off = starts[line - 1] + col - 1
            if off < pos or text[off : off + len(val)] != val:
                fail("progress", case, text, "token %d %r reported at %d:%d (offset %d) is not there / not after the previous token" % (k, val, line, col, off), "bad-position")
            gap = text[pos:off]
            if gap.strip(" \t\n") and not any(c == k + 1 for c in err_calls):
                fail("progress", case, text, "characters %r skipped silently before token %d" % (gap, k), "silent-skip")
            pos = off + len(val)
        gap = text[pos:]
        if gap.strip(" \t\n") and not any(c > len(got) for c in err_calls):
            fail("progress", case, text, "trailing characters %r skipped silently" % (gap,), "silent-skip")
        return bool("".join(text[a:b] for a, b in []) or (len(errs) > 0))
    # with '#': a directive may re-base line numbers; require that SOME
    # in-order placement of the tokens explains every character
    vals = [g[1] for g in got]
    # An 'Illegal character' report accounts for exactly one character; the
    # other error rules (unmatched quote, bad constant, bad escape, comment,
    # bad directive) skip the malformed construct, at most to the end of line.
    illegal_by_call = {}
    other_by_call = {}
    for e in errs:
        d = illegal_by_call if e[0].startswith("Illegal character") else other_by_call
        d[e[3]] = d.get(e[3], 0) + 1

    def gap_ok(gap, call_lo, call_hi):
        rest = gap
        # directive regions: from '#' to end of line
        out = []
        i = 0
        while i < len(rest):
            if rest[i] == "#":
                j = rest.find("\n", i)
                i = len(rest) if j < 0 else j + 1
                continue
            out.append(rest[i])
            i += 1
        junk = [ch for ch in out if ch not in " \t\n"]
        if not junk:
            return True
        if any(other_by_call.get(c, 0) for c in range(call_lo, call_hi + 1)):
            return True
        return len(junk) <= sum(illegal_by_call.get(c, 0) for c in range(call_lo, call_hi + 1))

    def place(k, pos):
        if k == len(vals):
            return gap_ok(text[pos:], k + 1, ncalls)
        v = vals[k]
        start = pos
        while True:
            i = text.find(v, start)
            if i < 0:
                return False
            if gap_ok(text[pos:i], k + 1, k + 1) and place(k + 1, i + len(v)):
                return True
            start = i + 1

    if not place(0, 0):
        fail("progress", case, text, "no in-order placement of the returned tokens %r explains every character (errors: %r)" % (vals, errs[:3]), "silent-skip")
    return len(errs) > 0


def progress_shard(arg):
    n, first = arg
    st = Stats()
    for rest in itertools.product(ALPHA, repeat=n - 1):
        text = first + "".join(rest)
        st.evaluations += 1
        try:
            if check_progress(text):
                st.nontrivial += 1
        except CheckFailure as f:
            st.failures.append(f.failure)
            if len(st.failures) > 30:
                return st
    st.sample(first + "".join(ALPHA[(i * 7) % len(ALPHA)] for i in range(n - 1)))
    return st


def noise_shard(arg):
    seed, n = arg
    st = Stats()

    def body(c):
        ln = c.int(1, 60)
        text = "".join(c.choice(ALPHA + ["\t", "l", "i", "n", "e", "p", "r", "g", "m", "2", "u", "8", "U", "E", "f", "}", "?", "`", "\r", "\xe9"]) for _ in range(ln))
        st.evaluations += 1
        if check_progress(text):
            st.nt(text)

    hyp_search(body, seed, n, st)
    return st


def long_run_shard(arg):
    """Thousands of directive lines (or blank lines) in a row, as cpp writes them
    for headers whose contents are guarded out, then tokens: the lexer finishes
    and the tokens carry the positions the last directive establishes."""
    form, n = arg
    st = Stats()
    lines = []
    for i in range(n):
        lines.append(form % (i + 1) if "%d" in form else form)
    text = "\n".join(lines) + "\nint x ;\n"
    try:
        toks, errs, calls, lx, finished = lex_all(text)
    except RecursionError:
        toks, errs, finished = [], [("RecursionError", 0, 0, 0)], False
    st.evaluations += 1
    case = ("longrun", form, n)
    names = [(t[0], t[1]) for t in toks if t[0] not in ("PPPRAGMA", "PPPRAGMASTR")]
    try:
        lex_all("int y ;")  # (a RecursionError above would have escaped as a harness error: catch it as a result)
    except RecursionError:
        pass
    if not finished or errs or names != [("INT", "int"), ("ID", "x"), ("SEMI", ";")]:
        st.failures.append(dict(subcheck="sequence", case=case, text=(form % 1 if "%d" in form else form) + " x %d + 'int x ;'" % n, detail="after %d lines of %r the lexer returned %r (errors %r, finished=%s)" % (n, form, names[:5], errs[:2], finished), sig="long-run"))
    st.nontrivial += 1
    return st


def run(ctx):
    ctx.map(pair_shard, list(range(len(VOCAB))), chunksize=4)
    ctx.map(directive_shard, [0])
    nmax = ctx.pick(4, 5)
    ctx.map(progress_shard, [(n, f) for n in range(1, nmax + 1) for f in ALPHA], chunksize=1)
    ctx.map(seq_shard, [(s, ctx.pick(1500, 30000)) for s in ctx.shard_seeds(16)])
    ctx.map(noise_shard, [(s, ctx.pick(1000, 20000)) for s in ctx.shard_seeds(16, 5)])
    forms = ["# %d", "#line %d", '# %d "g.h" 1 3', "#pragma once", "#pragma", "", "   ", '#line %d "d/e.c"']
    ctx.map(long_run_shard, [(f, n) for f in forms for n in ctx.pick((1500, 6000), (1500, 6000, 50000))])
    ctx.exhaustive = True
    ctx.extra["exhaustive_bounds"] = "all ordered pairs of %d vocabulary tokens x {adjacent if allowed, blank, tab, newline}; all strings of length <= %d over %d characters" % (len(VOCAB), nmax, len(ALPHA))


def replay(subcheck, case):
    if case and case[0] == "longrun":
        r = long_run_shard((case[1], case[2]))
        if r.failures:
            raise CheckFailure(**r.failures[0])
        return
    if case[0] == "directive":
        r = directive_shard(0)
        bad = [f for f in r.failures if f["case"] == tuple(case) or list(f["case"]) == list(case)]
        if bad:
            raise CheckFailure(**bad[0])
        return
    if case[0] == "reuse":
        _, k, text, exp = case
        rerrs = []
        lx = CLexer(lambda m, l, c: rerrs.append((m, l, c)), lambda: None, lambda: None, lambda n: n in LOOKUP_YES)
        lx.input("int a =\n#pragma omp parallel for\n 1 ;\n# 7 \"old.h\"\n#pragma once\nx y z", "old.c")
        for _ in range(k):
            if lx.token() is None:
                break
        got = lex_reused(lx, text, rerrs)
        if got != [tuple(x) for x in exp]:
            fail("sequence", case, text, "reused lexer differs", "reused-lexer")
        return
    if case[0] == "seq":
        check_sequence(case[1], [tuple(x) for x in case[2]], case)
    else:
        check_progress(case[1])
