"""C07 - parse . generate . parse = parse, for both generator configurations."""
import itertools

from .. import cmodel as M
from .. import gen
from ..corners import corner_programs
from ..corpus import corpus
from ..roundtrip import node_pairs, roundtrip
from ..runner import CheckFailure, Stats, hyp_search
from ..unitcheck import EXPR_CONTEXTS, _fn, unit_text
from . import c02, c03, c05, c06

ID = "C07"
RULE = (
    "Accepted programs: (a) exhaustive - every 2-operator expression tree of the C02 enumeration (all parent/child/slot "
    "triples over 54 operator kinds) in rotating contexts, every derivation sequence of length <= 2 of the C03 enumeration in "
    "11 contexts, every depth-1 (quick) / depth-2 (thorough) statement tree and every switch body with <= 3 items of the C05 "
    "enumeration; (b) Hypothesis-generated complete translation units from the C01-C05 generators; (c) the repository's "
    "preprocessed C corpus and the corner catalogue; (d) accepted token-mutants of (c); string literals (plain, L, u8) whose length is close to 127 / 255 / 509 / 1023 (also 31, 63, 4095 in the thorough tier) "
    "with eight kinds of escape sequence on every offset around the limit, and identifiers, constants and lists of those sizes; (e) accepted inputs of coverage-guided campaigns (atheris/libFuzzer, parser and generator "
    "instrumented, the round trip inside the target) and of the committed fuzz corpus. Each x reduce_parentheses in "
    "{False, True}. Oracle: generated text parses, second AST equals the first in every class/attribute/child (coordinates "
    "aside), generating from the second AST reproduces the text. Non-trivial: a program that contributes a (parent class, "
    "slot, child class) pair not seen before in its shard; distinct by the set of pairs; the number of pairs covered is reported."
)
ASSUMPTIONS = ["programs the parser rejects carry no claim here (C01/C18 decide acceptance)"]
QUARANTINE = ("decl.for_init_nonplain_later_declarator", "expr.comma_or_assignment_in_constant_position")


# ---------------------------------------------------------------------------
# Known-finding predicates (DESIGN.md section 3): corpus programs and random
# token-mutants cannot exclude a quarantined feature by construction, so a
# failure there is attributed to a listed finding when the *input's AST* shows
# the finding's feature.
# ---------------------------------------------------------------------------
def _ast_of(text):
    from pycparser import c_parser

    try:
        return c_parser.CParser().parse(text, "f.c")
    except Exception:  # noqa: BLE001
        return None


def _has_const_position_comma(failure):
    """F25a: a comma or assignment expression stands in a constant-expression
    or array-bound position"""
    from pycparser import c_ast
    from ..astdump import walk

    ast = _ast_of(failure["text"])
    if ast is None:
        return False
    bad = (c_ast.ExprList, c_ast.Assignment)
    for n in walk(ast):
        if isinstance(n, c_ast.Decl) and isinstance(n.bitsize, bad):
            return True
        if isinstance(n, c_ast.Enumerator) and isinstance(n.value, bad):
            return True
        if isinstance(n, c_ast.Case) and isinstance(n.expr, bad):
            return True
        if isinstance(n, c_ast.ArrayDecl) and isinstance(n.dim, c_ast.ExprList):
            return True
        if isinstance(n, c_ast.NamedInitializer) and any(isinstance(x, bad) for x in n.name):
            return True
        if isinstance(n, c_ast.Alignas) and isinstance(n.alignment, bad):
            return True
        if isinstance(n, c_ast.StaticAssert) and isinstance(n.cond, bad):
            return True
    return False


def _has_forinit_nonplain(failure):
    """F21: a for-init declaration whose second or later declarator is not a
    plain identifier"""
    from pycparser import c_ast
    from ..astdump import walk

    ast = _ast_of(failure["text"])
    if ast is None:
        return False
    for n in walk(ast):
        if isinstance(n, c_ast.DeclList) and any(not isinstance(getattr(d, "type", None), c_ast.TypeDecl) for d in n.decls[1:]):
            return True
    return False


def _has_atomic_specifier(failure):
    """F12*: the _Atomic(type) specifier form"""
    import re

    return re.search(r"_Atomic\s*\(", failure["text"]) is not None


PREDICATES = {
    "const_position_comma": _has_const_position_comma,
    "forinit_nonplain": _has_forinit_nonplain,
    "atomic_specifier": _has_atomic_specifier,
}


def rt_text(src, st, subcheck, case, seen):
    ast = None
    for rp in (False, True):
        st.evaluations += 1
        ast, g = roundtrip(src, rp, subcheck, case + (rp,), ast=ast)
        if ast is None:
            st.classes["not_accepted"] += 1
            return False
    pairs = node_pairs(ast)
    new = pairs - seen
    st.sets.setdefault("node_pairs", set()).update(pairs)
    if new:
        seen |= new
        st.nt(sorted(pairs))
    return True


def expr_shard(arg):
    kind_name, = arg
    st = Stats()
    seen = set()
    name, ar, mk = c02.first_kind_lookup(kind_name)
    idx = 0
    for split in c02._splits(1, ar):
        for kids in itertools.product(*[list(c02.trees(k, c02.KINDS)) for k in split]):
            e = mk(*kids)
            for off in range(2):
                ci = (idx + off * 5) % len(EXPR_CONTEXTS)
                idx += 1
                cname = EXPR_CONTEXTS[ci][0]
                if (e[0] in ("comma", "asg") and cname in ("case_label", "bit_width", "enumerator")) or (e[0] == "comma" and cname == "array_bound"):
                    st.excluded["expr.comma_or_assignment_in_constant_position"] += 1  # F25a
                    continue
                tu = M.freshen(EXPR_CONTEXTS[ci][1](e))
                for mode in ("min", "full"):
                    src = unit_text(tu, mode)
                    try:
                        rt_text(src, st, "enum-expr", ("expr", e, ci, mode), seen)
                    except CheckFailure as f:
                        st.failures.append(f.failure)
                        if len(st.failures) > 30:
                            return st
    return st


def decl_shard(arg):
    n, first = arg
    st = Stats()
    seen = set()
    idx = 0
    for rest in itertools.product(range(len(c03.ALPHABET)), repeat=n - 1):
        deriv = [c03.ALPHABET[i] for i in (first,) + rest]
        for ci, cname in enumerate(c03.CONTEXTS):
            base = c03.BASES[(idx + ci) % len(c03.BASES)]
            named = cname in ("file", "block", "forinit", "param", "member", "typedef")
            d2 = deriv if named else [(d if not (d[0] == "ptr" and d[1] and d[1][-1] == "_Atomic") else ("ptr", ["_Atomic", "const"])) for d in deriv]
            tu = M.freshen(c03.embed(cname, base, d2, None))
            src = unit_text(tu, "min")
            try:
                rt_text(src, st, "enum-decl", ("decl", cname, base, d2), seen)
            except CheckFailure as f:
                st.failures.append(f.failure)
                if len(st.failures) > 30:
                    return st
        idx += 1
    return st


def stmt_shard(arg):
    depth, part, nparts = arg
    st = Stats()
    seen = set()
    levels = c05.build(depth, depth <= 2)
    trees = levels[depth]
    for i in range(part, len(trees), nparts):
        tu = M.freshen(_fn([trees[i], c05.B]))
        src = unit_text(tu, "min")
        try:
            rt_text(src, st, "enum-stmt", ("stmt", [trees[i], c05.B]), seen)
        except CheckFailure as f:
            st.failures.append(f.failure)
            if len(st.failures) > 30:
                return st
    return st


def switch_shard(arg):
    n, first = arg
    st = Stats()
    seen = set()
    for rest in itertools.product(range(len(c05.SWITCH_ITEMS)), repeat=n - 1):
        items = [c05.SWITCH_ITEMS[i] for i in (first,) + rest]
        body = [("switch", c05.E, ("block", items)), c05.B]
        src = unit_text(M.freshen(_fn(body)), "min")
        try:
            rt_text(src, st, "enum-stmt", ("stmt", body), seen)
        except CheckFailure as f:
            st.failures.append(f.failure)
            if len(st.failures) > 30:
                return st
    return st


def random_shard(arg):
    seed, n = arg
    st = Stats()
    seen = set()

    def body(c):
        g = gen.G(c, quarantine=QUARANTINE)
        tu = M.freshen(gen.gen_unit(g))
        mode = c.choice(["min", "min", "red", "full"])
        pm = c.int(0, 0xFFFF) if mode == "red" else 0
        src = unit_text(tu, mode, M.paren_from_mask(pm))
        ok = rt_text(src, st, "random", ("unit", tu, mode, pm), seen)
        if not ok:
            st.classes["generated_unit_rejected"] += 1
        for f, k in g.features.items():
            st.classes["feature." + f] += k
        for f, k in g.excluded.items():
            st.excluded[f] += k
        if st.evaluations % 301 == 1:
            st.sample(src.split("\n", 1)[1][:500])

    hyp_search(body, seed, n, st)
    return st


def corpus_shard(arg):
    name, text = arg
    st = Stats()
    seen = set()
    try:
        rt_text(text, st, "corpus", ("text", text), seen)
    except CheckFailure as f:
        f.failure["text"] = "<corpus file %s>" % name
        st.failures.append(f.failure)
    st.classes["corpus_files"] += 1
    return st


def mutant_shard(arg):
    seed, n = arg
    st = Stats()
    seen = set()

    def body(c):
        src, toks, fname = c06.mutate_body(c)
        ok = rt_text(src, st, "mutant", ("text", src), seen)
        st.classes["mutant_accepted" if ok else "mutant_rejected"] += 1

    hyp_search(body, seed, n, st)
    return st


LIMITS = [31, 63, 127, 255, 509, 1023, 4095]  # translation limits and other numbers a "portable output" feature might use
LONG_ESCAPES = ["\\\\", "\\n", "\\\"", "\\x41", "\\101", "\\\\\\\\", "%", "\\?"]


def long_literal_shard(arg):
    """String literals whose length is close to a classic limit, with an escape
    sequence placed on every offset around that limit; identifiers, integer
    constants and initializer lists of such sizes as well."""
    limit, = arg
    st = Stats()
    seen = set()
    for pre in ("", "L", "u8"):
        for esc in LONG_ESCAPES:
            for off in range(limit - 4, limit + 3):
                for tail in (0, 5, limit):
                    body = "a" * max(off, 0) + esc + "b" * tail
                    src = "typedef int T; const void *s = %s\"%s\"; void f(void) { g(%s\"%s\" %s\"z\"); }" % (pre, body, pre, body, pre)
                    try:
                        rt_text(src, st, "unit", ("text", src), seen)
                    except CheckFailure as f:
                        st.failures.append(f.failure)
                        if len(st.failures) > 5:
                            return st
                    st.nontrivial += 1
    for n in range(limit - 2, limit + 3):
        for src in ("int %s = 1; int y = %s + 1;" % ("i" * n, "i" * n), "int a[] = { %s };" % ", ".join(["1"] * n), "int v = %s;" % ("1" + "0" * (n - 1)), "void f(void) { g(%s); }" % ", ".join(["a"] * n), "enum E { %s };" % ", ".join("K%d" % i for i in range(n))):
            try:
                rt_text("typedef int T; " + src, st, "unit", ("text", "typedef int T; " + src), seen)
            except CheckFailure as f:
                st.failures.append(f.failure)
    return st


def fuzz_shard(arg):
    """Coverage-guided campaign (atheris/libFuzzer; the generator is
    instrumented too) with the round trip inside the target; every bucket is
    re-decided here by rt_text, failures go through the finding predicates
    like those of the token-mutants."""
    from ..fuzzdrive import campaign_into

    st = Stats()
    seen = set()

    def redecide(text, st, data):
        try:
            rt_text(text, st, "mutant", ("text", text), seen)
        except CheckFailure as f:
            st.failures.append(f.failure)

    campaign_into(st, arg, "c07", redecide)
    return st


def fuzz_replay_shard(arg):
    import json
    import os

    from .. import fuzz_parse

    here, lo, hi = arg
    st = Stats()
    seen = set()
    for hx in json.load(open(os.path.join(here, "corpus", "fuzz_c06.json")))[lo:hi]:
        text = fuzz_parse.decode(bytes.fromhex(hx))
        try:
            ok = rt_text(text, st, "mutant", ("text", text), seen)
            st.classes["fuzz_corpus_accepted" if ok else "fuzz_corpus_rejected"] += 1
        except CheckFailure as f:
            st.failures.append(f.failure)
    return st


def run(ctx):
    ctx.map(expr_shard, [(k[0],) for k in c02.KINDS])
    nd = ctx.pick(2, 3)
    ctx.map(decl_shard, [(n, i) for n in range(1, nd + 1) for i in range(len(c03.ALPHABET))])
    sd = ctx.pick(1, 2)
    ctx.map(stmt_shard, [(d, p, 32) for d in range(1, sd + 1) for p in range(32 if d > 1 else 4)])
    ctx.map(switch_shard, [(n, f) for n in range(1, 4) for f in range(len(c05.SWITCH_ITEMS))])
    ctx.map(random_shard, [(s, ctx.pick(500, 12000)) for s in ctx.shard_seeds(16)])
    progs = corpus(big=not ctx.quick) + [("corner%d" % i, t) for i, t in enumerate(corner_programs())]
    ctx.map(corpus_shard, progs)
    c06.bases()
    ctx.map(mutant_shard, [(s, ctx.pick(600, 8000)) for s in ctx.shard_seeds(16, 3)])
    import json
    import os

    from ..fuzzdrive import campaign_args

    cj = os.path.join(ctx.here, "corpus", "fuzz_c06.json")
    if os.path.exists(cj):
        ncorp = len(json.load(open(cj)))
        step = max(1, (ncorp + 15) // 16)
        ctx.map(fuzz_replay_shard, [(ctx.here, lo, lo + step) for lo in range(0, ncorp, step)])
    ctx.map(long_literal_shard, [(l,) for l in (LIMITS if not ctx.quick else LIMITS[2:6])])
    ctx.map(fuzz_shard, campaign_args(ctx, 4, 20, 8000, 80000, 7))
    ctx.exhaustive = True
    ctx.extra["exhaustive_bounds"] = "2-operator expression trees; derivation sequences <= %d x 11 contexts; statement trees depth <= %d; switch bodies <= 3 items" % (nd, sd)


def replay(subcheck, case):
    st = Stats()
    kind = case[0]
    rp = case[-1]
    if kind == "expr":
        _, e, ci, mode = case[:-1]
        src = unit_text(M.freshen(EXPR_CONTEXTS[ci][1](e)), mode)
    elif kind == "decl":
        _, cname, base, d2 = case[:-1]
        src = unit_text(M.freshen(c03.embed(cname, base, d2, None)), "min")
    elif kind == "stmt":
        src = unit_text(M.freshen(_fn(case[1])), "min")
    elif kind == "unit":
        _, tu, mode, pm = case[:-1]
        src = unit_text(M.freshen(tu), mode, M.paren_from_mask(pm))
    else:
        src = case[1]
    roundtrip(src, rp, subcheck, case)
