"""C18 - structurally malformed input is always rejected."""
import itertools
import tempfile
import zlib

from .. import cmodel as M
from .. import gen
from .. import reflex
from ..corners import corner_programs
from ..corpus import corpus
from ..oracle import parse_outcome
from ..runner import CheckFailure, Stats, fail, hyp_search

ID = "C18"
RULE = (
    "For accepted programs (Hypothesis-generated translation units whose token lists come from the renderer; corpus and corner "
    "programs split by the reference tokenizer): ALL single-bracket deletions, duplications and kind swaps (each ( ) [ ] { } "
    "token -> each other bracket) and, at every bracket position (quick) / every token boundary (thorough), injections of "
    "non-token text (@ ` \\ /* c */ // c lone ' lone \" #include <x> #define A #if 0). Exhaustive: all bracket strings of length "
    "<= 6 (quick) / 8 (thorough) embedded in an expression, a declarator and a statement context. Oracle: a 10-line bracket "
    "matcher over the token stream says unbalanced => parse must raise ParseError (balanced strings carry no claim); injected "
    "text must always raise ParseError. Another exception type counts as 'not ParseError' and is reported (it is also a C06 "
    "matter). Also: non-token text and single brackets at EVERY offset (outside the quoted file name) of every line directive of fixed "
    "cpp-style programs and of generated programs laid out with linemarkers of 8 forms; characters no C token contains (digits and "
    "letters of other scripts, control characters, no-break blanks) glued to the front, the inside and the end of every non-literal "
    "token; single-bracket mutants of the second of two identical copies of a program placed behind the same linemarker (every token "
    "shares file, line and column with its twin). (e) coverage-guided campaigns (atheris/libFuzzer, token sequences over a 150-entry vocabulary): an input containing "
    "a token no C program contains or brackets that do not nest must be rejected; the committed corpus of earlier campaigns is replayed. "
    "Non-trivial: mutants whose first imbalance or injection lies after >= 10 valid tokens; distinct by construction "
    "per program."
    ' Every fifth rejected text and every text with a non-ASCII character also goes in through parse_file(use_cpp=False) from a scratch file (class also_through_parse_file); U+FEFF, U+00A0 and NUL are among the injections. '
)
ASSUMPTIONS = ["base programs that the tree does not accept are skipped (acceptance is C01's claim)"]
QUARANTINE = ()

OPEN = {"(": ")", "[": "]", "{": "}"}
CLOSE = {")", "]", "}"}
BR = "()[]{}"
INJECT = ["@", "`", "\\", "\ufeff", "\xa0", "\x00", "/* c */", "// c\n", "'", '"', "\n#include <x>\n", "\n#define A 1\n", "\n#if 0\n", "\n#error x\n"]
# directives other than #line / #pragma whose names merely resemble them; injected
# at declaration/statement boundaries only (keeps the quick tier cheap)
INJECT_DIRECTIVES = [
    "\n#pragmas x\n", "\n#pragma_once\n", "\n#pragma7 pack(1)\n", "\n# pragmatic (( @\n", "\n#Pragma once\n", "\n#lines 3\n", "\n#line_ 3\n",
    "\n#LINE 3\n", "\n#linex\n", "\n#endif\n", "\n#undef A\n", "\n#ifdef A\n", "\n#elif 1\n", "\n#warning w\n", "\n# define B\n", "\n#\tinclude \"x.h\"\n", "\n#pragmaonce\n",
]


def first_imbalance(toks):
    """index of the first token at which the bracket structure is broken
    (len(toks) if brackets are left open at the end), or None if balanced"""
    stack = []
    for i, t in enumerate(toks):
        if t in OPEN:
            stack.append(OPEN[t])
        elif t in CLOSE:
            if not stack or stack.pop() != t:
                return i
    return len(toks) if stack else None


def text_of(strs):
    out = []
    bol = True
    for s in strs:
        if s.startswith("\n") or s.startswith("#"):
            if not bol:
                out.append("\n")
            out.append(s.strip("\n") + "\n")
            bol = True
        else:
            if not bol:
                out.append(" ")
            out.append(s)
            bol = s.endswith("\n")
    return "".join(out)


def via_parse_file(src):
    """the same text read from a file by pycparser.parse_file(use_cpp=False):
    -> 'ast' | 'perr' | ('bad', detail) | None (text cannot be stored as it is)"""
    import pycparser

    if "\r" in src:
        return None  # (reading a file in text mode turns a carriage return into a line end)
    try:
        data = src.encode("utf-8")
    except UnicodeEncodeError:
        return None
    with tempfile.NamedTemporaryFile(suffix=".c", prefix="c18_") as f:
        f.write(data)
        f.flush()
        try:
            ast = pycparser.parse_file(f.name, use_cpp=False)
        except pycparser.c_parser.ParseError:
            return "perr"
        except RecursionError:
            return None
        except Exception as e:  # noqa: BLE001 - this is the oracle
            return ("bad", "%s: %s" % (type(e).__name__, str(e)[:200]))
    return "ast" if ast is not None else ("bad", "parse_file returned None")


def must_reject(strs, what, case, st):
    src = text_of(strs)
    out = parse_outcome(src, "f.c", ("f.c", "tab.h"))
    st.evaluations += 1
    if out[0] == "ast":
        fail("accepted", case, src, "malformed input accepted (%s)" % what, "accepted:" + what.split(" ")[0])
    if out[0] == "bad":
        fail("not-parseerror", case, src, "malformed input (%s) raised %s instead of ParseError" % (what, out[2]), "notperr:" + out[1])
    if zlib.crc32(src.encode("utf-8", "replace")) % 5 == 0 or any(ord(ch) > 126 for ch in src):
        # every fifth text (and every one with an unusual character) also goes in through parse_file
        got = via_parse_file(src)
        if got is not None:
            st.classes["also_through_parse_file"] += 1
        if got == "ast":
            fail("accepted", case, src, "malformed input accepted when read by parse_file(use_cpp=False) (%s)" % what, "accepted-file:" + what.split(" ")[0])
        if isinstance(got, tuple):
            fail("not-parseerror", case, src, "malformed input (%s) read by parse_file(use_cpp=False) raised %s" % (what, got[1]), "notperr-file")


def mutate_program(strs, st, label, all_boundaries):
    """all single-bracket mutants and injections of a token list"""
    base = text_of(strs)
    out = parse_outcome(base, "f.c", ("f.c",))
    if out[0] != "ast":
        st.classes["base_not_accepted"] += 1
        return
    if first_imbalance([s for s in strs if not s.startswith(("\n", "#"))]) is not None:
        raise AssertionError("harness: accepted base program with unbalanced brackets?! %r" % base[:200])
    st.classes["base_programs"] += 1
    depth = 0
    for i, v in enumerate(strs):
        isbr = len(v) == 1 and v in BR
        # boundaries between external declarations / block items / members
        boundary = i == 0 or strs[i - 1] in (";", "}", "{")
        if v in OPEN:
            depth += 1
        elif v in CLOSE:
            depth -= 1
        if isbr:
            muts = [("delete", strs[:i] + strs[i + 1 :]), ("duplicate", strs[:i] + [v] + strs[i:])]
            muts += [("swap %s->%s" % (v, o), strs[:i] + [o] + strs[i + 1 :]) for o in BR if o != v]
            for what, m in muts:
                must_reject(m, what, (label, m), st)
                if i >= 10:
                    st.nontrivial += 1
        if boundary:
            for inj in INJECT_DIRECTIVES:
                m = strs[:i] + [inj] + strs[i:]
                must_reject(m, "inject %r" % inj.strip(), (label, m), st)
        if isbr or boundary or all_boundaries:
            for inj in INJECT:
                m = strs[:i] + [inj] + strs[i:]
                must_reject(m, "inject %r" % inj.strip(), (label, m), st)
                if i >= 10:
                    st.nontrivial += 1


DIRECTIVE_INJECT = ["@", "`", "\\", "/*", "//", "'", "(", ")", "[", "]", "{", "}", "$@", "#"]
DIRECTIVE_BASES = [
    '# 1 "/usr/include/stdio.h" 1 3 4\nint a;\n# 20 "f.c" 2\nint b;\n',
    'int a;\n#line 7 "g.h"\nint b = (1);\n# 9 "g.h" 3\nint c[2];\n',
    'void f(void) {\n  # 3 "h.h" 1\n  int x;\n#line 12\n  x = 1;\n# 5 "f.c" 2 3 4\n}\n',
    '#   44   "a b.c"   1   2\nstruct S { int m;\n# 2\n int n; };\n',
]


def directive_lines(text):
    """(start, end, quote_spans) of every line directive line (not #pragma)"""
    out = []
    pos = 0
    for line in text.split("\n"):
        s = line.lstrip(" \t")
        if s.startswith("#") and not s[1:].lstrip(" \t").startswith("pragma"):
            spans = []
            i = line.find('"')
            if i >= 0:
                j = line.find('"', i + 1)
                if j > i:
                    spans.append((pos + i, pos + j))
            out.append((pos, pos + len(line), spans))
        pos += len(line) + 1
    return out


def inject_in_directives(text, st, label, case_of):
    """non-token text or a bracket at EVERY offset of every line directive
    (outside the quoted file name): the result must be rejected"""
    out = parse_outcome(text, "f.c", ("f.c",))
    if out[0] != "ast":
        st.classes["base_not_accepted"] += 1
        return
    st.classes["directive_base_programs"] += 1
    for a, b, spans in directive_lines(text):
        for off in range(a, b + 1):
            if any(i < off <= j for i, j in spans):
                continue
            for inj in DIRECTIVE_INJECT:
                if inj == "#" and off == a:
                    continue
                m = text[:off] + inj + text[off:]
                o2 = parse_outcome(m, "f.c", ("f.c",))
                st.evaluations += 1
                st.nontrivial += 1
                if o2[0] == "ast":
                    fail("accepted", case_of(m), m, "%r injected into a line directive (offset %d of the line) is accepted" % (inj, off - a), "accepted:directive")


def directive_shard(arg):
    from ..layout import lay_out

    seed, n = arg
    st = Stats()
    for t in DIRECTIVE_BASES[seed % 2 :: 2]:
        try:
            inject_in_directives(t, st, "fixed", lambda m: ("text", m))
        except CheckFailure as f:
            st.failures.append(f.failure)

    class T:
        def __init__(self, s, line=False):
            self.s = s
            self.line = line

    def body(c):
        g = gen.G(c, quarantine=QUARANTINE, max_nodes=50)
        tu = M.freshen(gen.gen_unit(g, 1))
        r = M.Renderer("min")
        r.unit(tu)
        toks = [T(x) for x in gen.PRELUDE.split()] + [T(t.s, t.line) for t in r.toks]
        laid = lay_out(toks, c, style="random", marker_p=0.12, collide_p=0)
        inject_in_directives(laid.text, st, "generated", lambda m: ("text", m))

    hyp_search(body, seed, n, st)
    return st


GLUE = ["\ufeff", "\u0663", "\uff15", "\u0968", "\xb2", "\xe9", "\xaa", "\u2167", "@", "`", "\x00", "\x7f", "\xa0", "\u2028"]


def glue_program(strs, st, label):
    """a character no C token contains, glued to the front, the inside and the
    end of every token that is not a string or character literal (a digit of
    another script next to a constant, a letter of another script next to an
    identifier ...): the result must be rejected"""
    base = text_of(strs)
    if parse_outcome(base, "f.c", ("f.c",))[0] != "ast":
        return
    st.classes["glue_base_programs"] += 1
    seen = set()
    for i, v in enumerate(strs):
        if v.startswith(("\n", "#")) or '"' in v or "'" in v or v in seen:
            continue
        seen.add(v)
        for ch in GLUE:
            for m in (v + ch, ch + v, v[:1] + ch + v[1:]):
                mut = strs[:i] + [m] + strs[i + 1 :]
                must_reject(mut, "glue %r to %r" % (ch, v), (label, mut), st)
                st.nontrivial += 1


def glue_shard(arg):
    seed, n = arg
    st = Stats()
    fixed = [
        "double d = 1.5 ; int a [ ( int ) 2.0 ] ; float f = 1e3f + .5 + 0x1.8p3 + 12. ;",
        "int i = 10 + 0x1F + 017 + 0b11 + 1ull ; char c = x ; long v1 = i << 2 ;",
    ]
    for t in fixed[seed % 2 :: 2]:
        try:
            glue_program(t.split(), st, "fixed")
        except CheckFailure as f:
            st.failures.append(f.failure)

    def body(c):
        g = gen.G(c, quarantine=QUARANTINE, max_nodes=40)
        tu = M.freshen(gen.gen_unit(g, 1))
        r = M.Renderer("min")
        r.unit(tu)
        strs = gen.PRELUDE.split() + [("\n" + t.s) if t.line else t.s for t in r.toks]
        glue_program(strs, st, "generated")

    hyp_search(body, seed, n, st)
    return st


EXTRA_BASES = [
    "void f ( void ) { x = 1 + 1 + 1 + 1 + 1 + ( int [ ( { 1 ; } ) ] ) { 0 } [ 0 ] - 7 ; }",
    "int g ( int a ) { return ( { int b = a ; b + 1 ; } ) + sizeof ( int [ ( { 2 ; } ) ] ) ; }",
    "void h ( void ) { y = ( struct S { int m [ 2 ] ; } ) { { 1 , 2 } } . m [ ( { 0 ; } ) ] + ( ( int ) ( 3 ) ) ; }",
    "int k ( int n ) { int v [ n ] [ ( { n ; } ) ] ; for ( int i = ( 0 ) ; i < ( n ) ; i ++ ) { v [ i ] [ 0 ] = ( i ) ; } return v [ 0 ] [ 0 ] ; }",
]


def extra_shard(i):
    st = Stats()
    try:
        mutate_program(EXTRA_BASES[i].split(), st, "extra", True)
    except CheckFailure as f:
        st.failures.append(f.failure)
    return st


def twin_shard(arg):
    """The same program twice, each copy behind the SAME linemarker: every token
    of the second copy has the file, line and column of its twin in the first.
    Single-bracket mutants of the second copy must be rejected like any other
    (nothing keyed by source position may stand in for reading the tokens)."""
    seed, n = arg
    st = Stats()

    def body(c):
        g = gen.G(c, quarantine=QUARANTINE, max_nodes=60)
        tu = M.freshen(gen.gen_unit(g, 1))
        r = M.Renderer("min")
        r.unit(tu)
        one = gen.PRELUDE.split() + [("\n" + t.s) if t.line else t.s for t in r.toks]
        marker = c.choice(['\n# 1 "tab.h"\n', "\n#line 1\n", '\n# 7 "f.c" 1\n'])
        strs = [marker] + one + [marker] + one
        base = text_of(strs)
        if parse_outcome(base, "f.c", ("f.c", "tab.h"))[0] != "ast":
            st.classes["base_not_accepted"] += 1
            return
        st.classes["twin_base_programs"] += 1
        first = len(one) + 2
        for i in range(first, len(strs)):
            v = strs[i]
            if len(v) == 1 and v in BR:
                for o in BR:
                    if o != v:
                        m = strs[:i] + [o] + strs[i + 1 :]
                        must_reject(m, "swap %s->%s in the second copy" % (v, o), ("twin", m), st)
                        st.nontrivial += 1
                must_reject(strs[:i] + strs[i + 1 :], "delete in the second copy", ("twin", strs[:i] + strs[i + 1 :]), st)

    hyp_search(body, seed, n, st)
    return st


def random_shard(arg):
    seed, n, all_boundaries = arg
    st = Stats()

    def body(c):
        g = gen.G(c, quarantine=QUARANTINE, max_nodes=120)
        tu = M.freshen(gen.gen_unit(g, c.int(1, 2)))
        r = M.Renderer("min")
        r.unit(tu)
        strs = gen.PRELUDE.split() + [("\n" + t.s) if t.line else t.s for t in r.toks]
        mutate_program(strs, st, "generated", all_boundaries)
        if st.classes["base_programs"] % 97 == 1:
            st.sample(text_of(strs)[:300])

    hyp_search(body, seed, n, st)
    return st


def corpus_shard(arg):
    name, text, all_boundaries, maxtok = arg
    st = Stats()
    items = reflex.split_source(text)
    if items is None:
        return st
    strs = [s if k == "tok" else "\n" + s for k, s in items if not (k == "line" and not s.lstrip()[1:].lstrip().startswith("pragma"))]
    if len(strs) > maxtok:
        strs = strs[:maxtok]
        # cut at a top-level boundary so that the base stays valid
        depth = 0
        last = 0
        for i, s in enumerate(strs):
            if s == "{":
                depth += 1
            elif s == "}":
                depth -= 1
            if depth == 0 and s in (";", "}"):
                last = i + 1
        strs = strs[:last]
    try:
        mutate_program(strs, st, "corpus:" + name, all_boundaries)
    except CheckFailure as f:
        st.failures.append(f.failure)
    return st


CONTEXTS = [
    ("expression", "void f ( void ) { a".split(), "; }".split()),
    ("declarator", "int a".split(), ";".split()),
    ("statement", "void f ( void ) {".split(), "}".split()),
]


def bracket_shard(arg):
    n, first = arg
    st = Stats()
    for rest in itertools.product(BR, repeat=n - 1):
        s = [first] + list(rest)
        for cname, pre, post in CONTEXTS:
            toks = pre + s + post
            fi = first_imbalance(toks)
            if fi is None:
                st.classes["balanced_no_claim"] += 1
                continue
            try:
                must_reject(toks, "bracket string in %s context" % cname, ("brackets", toks), st)
                st.nontrivial += 1
            except CheckFailure as f:
                st.failures.append(f.failure)
                if len(st.failures) > 30:
                    return st
    if first == "(":
        st.sample(" ".join(CONTEXTS[0][1] + [first] + list(BR[: n - 1]) + CONTEXTS[0][2]))
    return st


FUZZ_NONTOKENS = {"@", "`", "\\", "''", "08", "/*", "//", "\n#pragmas\n", "\n# x\n"}


def fuzz_tokens(data):
    from .. import fuzz_parse

    return [fuzz_parse.VOCAB[b % len(fuzz_parse.VOCAB)] for b in data[1:4096]]


def fuzz_must_reject(data, st, case):
    """A token-mode fuzz input: this module's own judgement (bracket matcher,
    non-token list) and, if it says malformed, the parse."""
    from .. import fuzz_parse

    if not data or data[0] % 2:
        return
    toks = fuzz_tokens(data)
    what = None
    bad = [t for t in toks if t in FUZZ_NONTOKENS]
    if bad:
        what = "non-token %r" % bad[0]
    elif first_imbalance(toks) is not None:
        what = "bracket imbalance at token %d" % first_imbalance(toks)
    if what is None:
        return
    src = fuzz_parse.decode(data)
    out = parse_outcome(src, "f.c", ("f.c", "g.c"))
    st.evaluations += 1
    if out[0] == "ast":
        fail("accepted", case, src, "malformed input accepted (%s)" % what, "accepted:" + what.split(" ")[0])


def fuzz_shard(arg):
    """Coverage-guided campaign with the C18 oracle inside the target
    (vlib/fuzz_parse.py, mode c18); buckets are re-decided here."""
    from ..fuzzdrive import campaign_into

    st = Stats()

    def redecide(text, st, data):
        try:
            fuzz_must_reject(data, st, ("fuzz", data.hex()))
        except CheckFailure as f:
            st.failures.append(f.failure)

    campaign_into(st, arg, "c18", redecide)
    return st


def fuzz_replay_shard(arg):
    import json
    import os

    here, lo, hi = arg
    st = Stats()
    for hx in json.load(open(os.path.join(here, "corpus", "fuzz_c06.json")))[lo:hi]:
        data = bytes.fromhex(hx)
        n0 = st.evaluations
        try:
            fuzz_must_reject(data, st, ("fuzz", hx))
        except CheckFailure as f:
            st.failures.append(f.failure)
        if st.evaluations > n0 and len(data) > 10:
            st.nt(hx)
        st.classes["fuzz_corpus_replayed"] += 1
    return st


def run(ctx):
    nmax = ctx.pick(6, 8)
    ctx.map(bracket_shard, [(n, f) for n in range(1, nmax + 1) for f in BR], chunksize=1)
    allb = not ctx.quick
    ctx.map(random_shard, [(s, ctx.pick(25, 400), allb) for s in ctx.shard_seeds(16)])
    maxtok = ctx.pick(350, 1500)
    corners = [("corner%d" % i, t, allb, maxtok) for i, t in enumerate(corner_programs()) if "#" not in t]
    if ctx.quick:
        corners = corners[ctx.seed % 4 :: 4]
    progs = [(n, t, allb, maxtok) for n, t in corpus(big=False)] + corners
    ctx.map(corpus_shard, progs)
    ctx.map(directive_shard, [(s, ctx.pick(6, 150)) for s in ctx.shard_seeds(16, 11)])
    ctx.map(glue_shard, [(s, ctx.pick(6, 150)) for s in ctx.shard_seeds(16, 12)])
    ctx.map(twin_shard, [(s, ctx.pick(10, 200)) for s in ctx.shard_seeds(16, 13)])
    ctx.map(extra_shard, list(range(len(EXTRA_BASES))))
    import json
    import os

    from ..fuzzdrive import campaign_args

    cj = os.path.join(ctx.here, "corpus", "fuzz_c06.json")
    if os.path.exists(cj):
        ncorp = len(json.load(open(cj)))
        step = max(1, (ncorp + 15) // 16)
        ctx.map(fuzz_replay_shard, [(ctx.here, lo, lo + step) for lo in range(0, ncorp, step)])
    ctx.map(fuzz_shard, campaign_args(ctx, 4, 20, 10000, 120000, 18))
    ctx.exhaustive = True
    ctx.extra["exhaustive_bounds"] = "all bracket strings of length <= %d in 3 contexts; all single-bracket mutants of every base program" % nmax


def replay(subcheck, case):
    st = Stats()
    if case[0] == "fuzz":
        fuzz_must_reject(bytes.fromhex(case[1]), st, case)
        return
    if case[0] == "text":
        out = parse_outcome(case[1], "f.c", ("f.c",))
        if out[0] == "ast":
            fail("accepted", case, case[1], "malformed text accepted", "accepted:directive")
        return
    must_reject(list(case[1]), "replay", case, st)
