"""C05 - statement ASTs mirror C's statement nesting and source order."""
import itertools

from .. import cmodel as M
from .. import gen
from ..runner import CheckFailure, Stats, hyp_search
from ..unitcheck import INT, _fn, check_unit

ID = "C05"
RULE = (
    "Function bodies of an independent statement model (expression, empty, compound, if, if-else, while, do, for with "
    "none/expression/declaration init, switch, case, default, label, goto, break, continue, return, declaration, #pragma "
    "line, _Pragma, pragma-prefixed substatement). Exhaustive: all statement trees to depth 2 (quick) / 3 with one non-leaf "
    "child per binary node (thorough) over a reduced alphabet, and all switch bodies with up to 4 (quick) / 5 (thorough) "
    "direct items over an 9-item alphabet; Hypothesis-generated bodies to depth 6 with pragmas at every block-item and "
    "substatement boundary. Expected AST: grammar nesting (else to the nearest if; label/case/default own the next statement), "
    "block items in source order, For slots, the documented switch regrouping re-implemented from its docstring, one Pragma node "
    "per line. Non-trivial: a switch with >= 2 labels and a non-label item, a dangling-else shape, or a pragma before a "
    "substatement; distinct by construction / by hash of the text. Outside the domain: a plain label directly in front of a "
    "case among switch items (property wording and documented transform disagree)."
)
ASSUMPTIONS = [
    "the switch regrouping asserted is the one documented in the docstring of ast_transforms.fix_switch_cases (direct items of a Compound body only)",
    "block-scope _Static_assert is excluded from the main stream (known finding F19)",
]
QUARANTINE = ("stmt.static_assert_in_block",)

A = ("expr", ("id", "a"))
B = ("expr", ("id", "b"))
E = ("id", "c")
LEAVES = [A, ("empty",), ("break",), ("return", None), ("goto", "L1")]
BLOCK_ONLY = [("decl", INT, [("d", "v", [], None, None, None)]), ("pragma", "omp x")]
DECL_I = ("decl", INT, [("d", "i", [], ("ie", ("const", "0", "int")), None, None)])

UNARY = [
    ("block1", lambda x: ("block", [x])),
    ("if", lambda x: ("if", E, x, None)),
    ("while", lambda x: ("while", E, x)),
    ("do", lambda x: ("do", x, E)),
    ("for0", lambda x: ("for", None, None, None, x)),
    ("fore", lambda x: ("for", ("e", E), E, E, x)),
    ("ford", lambda x: ("for", ("d", DECL_I), None, E, x)),
    ("switch", lambda x: ("switch", E, x)),
    ("switchb", lambda x: ("switch", E, ("block", [x]))),
    ("case", lambda x: ("case", ("const", "1", "int"), x)),
    ("default", lambda x: ("default", x)),
    ("label", lambda x: ("label", "L1", x)),
    ("prag", lambda x: ("if", E, ("prag", [("pragma", "omp y")], x), None)),
    ("prag2", lambda x: ("while", E, ("prag", [("pragma", "p1"), ("pragma", "")], x))),
]
BINARY = [
    ("ifelse", lambda x, y: ("if", E, x, y)),
    ("block2", lambda x, y: ("block", [x, y])),
    ("switch2", lambda x, y: ("switch", E, ("block", [x, y]))),
]


def valid(t):
    """inside the (injective) domain?"""
    k = t[0]
    if k == "if" and t[3] is not None and gen.open_if(t[2]):
        return False
    if k == "label" and gen.leads_to_case(t[2]):
        return False
    return True


def build(depth, full_binary):
    """trees by depth: level[d] = list of trees of depth exactly d"""
    levels = [list(LEAVES)]
    for d in range(1, depth + 1):
        prev = levels[d - 1]
        below = [t for lv in levels[: d - 1] for t in lv]
        cur = []
        for _, mk in UNARY:
            for x in prev:
                t = mk(x)
                if valid(t):
                    cur.append(t)
        for name, mk in BINARY:
            if full_binary or d <= 2:
                pairs = itertools.chain(itertools.product(prev, prev + below), itertools.product(below, prev))
            else:
                leaves = levels[0]
                pairs = itertools.chain(itertools.product(prev, leaves), itertools.product(leaves, prev))
            extra = BLOCK_ONLY if name != "ifelse" else []
            for x, y in pairs:
                t = mk(x, y)
                if valid(t):
                    cur.append(t)
            for bo in extra:
                for x in prev:
                    cur.append(mk(bo, x))
                    cur.append(mk(x, bo))
        levels.append(cur)
    return levels


SWITCH_ITEMS = [
    ("case", ("const", "1", "int"), A),
    ("case", ("const", "2", "int"), ("case", ("const", "3", "int"), B)),
    ("default", ("break",)),
    ("case", ("const", "4", "int"), ("default", ("case", ("const", "5", "int"), ("empty",)))),
    A,
    ("block", [("case", ("const", "6", "int"), B)]),
    ("decl", INT, [("d", "w", [], None, None, None)]),
    ("pragma", "omp z"),
    ("if", E, ("case", ("const", "7", "int"), A), None),
]


def is_nontrivial(t):
    return _nt(t)


def _nt(t):
    if not isinstance(t, tuple):
        if isinstance(t, list):
            return any(_nt(x) for x in t)
        return False
    k = t[0] if t else None
    if k == "prag":
        return True
    if k == "switch" and t[2][0] == "block":
        items = t[2][1]
        nlab = sum(1 for it in items if it[0] in ("case", "default"))
        if nlab >= 2 and any(it[0] not in ("case", "default") for it in items):
            return True
    if k == "if" and t[3] is not None and _contains_if(t[2]):
        return True
    if k == "if" and t[3] is None and t[2][0] == "if":
        return True
    return any(_nt(x) for x in t[1:])


def _contains_if(t):
    if isinstance(t, tuple):
        return (t and t[0] == "if") or any(_contains_if(x) for x in t[1:])
    if isinstance(t, list):
        return any(_contains_if(x) for x in t)
    return False


def check_body(items, st, case, mode="min", pm=0):
    tu = M.freshen(_fn(items))
    st.evaluations += 1
    src, _ = check_unit(tu, mode, M.paren_from_mask(pm), subcheck="stmt", case=case)
    return src


_LEVELS = {}


def tree_shard(arg):
    depth, full_binary, part, nparts = arg
    st = Stats()
    key = (depth, full_binary)
    if key not in _LEVELS:
        _LEVELS[key] = build(depth, full_binary)
    trees = _LEVELS[key][depth]
    for i in range(part, len(trees), nparts):
        t = trees[i]
        try:
            src = check_body([t], st, ("tree", [t]))
        except CheckFailure as f:
            st.failures.append(f.failure)
            if len(st.failures) > 40:
                break
            continue
        if is_nontrivial(t):
            st.nontrivial += 1
        if i % 5003 == 11:
            st.sample(src.split("\n", 1)[1])
    return st


def switch_shard(arg):
    n, first = arg
    st = Stats()
    for rest in itertools.product(range(len(SWITCH_ITEMS)), repeat=n - 1):
        items = [SWITCH_ITEMS[i] for i in (first,) + rest]
        t = ("switch", E, ("block", items))
        try:
            src = check_body([t, B], st, ("tree", [t, B]))
        except CheckFailure as f:
            st.failures.append(f.failure)
            if len(st.failures) > 40:
                break
            continue
        if is_nontrivial(t):
            st.nontrivial += 1
        if sum(rest) % 997 == 13:
            st.sample(src.split("\n", 1)[1])
    return st


def random_shard(arg):
    seed, n = arg
    st = Stats()

    def body(c):
        g = gen.G(c, quarantine=QUARANTINE)
        blk = gen.gen_block(g, c.int(1, 5))
        mode = c.choice(["min", "min", "red", "full"])
        pm = c.int(0, 0xFFFF) if mode == "red" else 0
        src = check_body(blk[1], st, ("random", blk[1], mode, pm), mode, pm)
        if is_nontrivial(blk):
            st.nt(src)
        for f, k in g.features.items():
            st.classes["feature." + f] += k
        for f, k in g.excluded.items():
            st.excluded[f] += k
        for kind in _kinds(blk, set()):
            st.classes["stmt." + kind] += 1
        if st.evaluations % 397 == 1:
            st.sample(src.split("\n", 1)[1][:500])

    hyp_search(body, seed, n, st)
    return st


def _kinds(t, acc):
    if isinstance(t, tuple):
        if t and isinstance(t[0], str) and t[0] in ("expr", "empty", "block", "if", "while", "do", "for", "switch", "case", "default", "label", "goto", "break", "continue", "return", "decl", "sassert", "pragma", "prag", "oppragma"):
            acc.add(t[0])
        for x in t[1:]:
            _kinds(x, acc)
    elif isinstance(t, list):
        for x in t:
            _kinds(x, acc)
    return acc


def run(ctx):
    depth = ctx.pick(2, 3)
    nparts = 64
    jobs = []
    for d in range(1, depth + 1):
        jobs += [(d, d <= 2, p, nparts) for p in range(nparts if d >= 2 else 1)]
    # build once in the parent so that forked workers share the lists
    for d in range(1, depth + 1):
        _LEVELS[(d, d <= 2)] = build(d, d <= 2)
    ctx.map(tree_shard, jobs)
    nsw = ctx.pick(4, 5)
    ctx.map(switch_shard, [(n, f) for n in range(1, nsw + 1) for f in range(len(SWITCH_ITEMS))])
    ctx.map(random_shard, [(s, ctx.pick(1200, 25000)) for s in ctx.shard_seeds(16)])
    ctx.exhaustive = True
    ctx.extra["exhaustive_bounds"] = "statement trees of depth <= %d over %d leaves, %d unary and %d binary constructors (depth 3: one non-leaf child per binary node); switch bodies with <= %d direct items over %d item forms" % (
        depth, len(LEAVES), len(UNARY), len(BINARY), nsw, len(SWITCH_ITEMS))  # fmt: skip
    ctx.extra["trees_per_depth"] = {str(d): len(_LEVELS[(d, d <= 2)][d]) for d in range(1, depth + 1)}


def replay(subcheck, case):
    st = Stats()
    if case[0] == "tree":
        check_body(case[1], st, case)
    else:
        _, items, mode, pm = case
        check_body(items, st, case, mode, pm)
