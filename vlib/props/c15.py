"""C15 - ASTs survive repr/eval, pickle and deepcopy unchanged."""
import copy
import pickle

from pycparser import c_ast, c_generator

from .. import cmodel as M
from .. import gen
from ..astdump import dump, first_difference
from ..corpus import corpus
from ..oracle import parse_outcome
from ..runner import CheckFailure, Stats, fail, hyp_search
from ..unitcheck import unit_text

ID = "C15"
RULE = (
    "ASTs of Hypothesis-generated translation units (all generator features) whose string/character constants and #pragma "
    "texts are drawn from a hostile pool (quotes, backslashes, \\x escapes, non-ASCII, text that looks like repr output), and "
    "of the corpus. Oracle: eval(repr(ast)) in the namespace of c_ast has the same dump; for every pickle protocol 2..HIGHEST "
    "and copy.deepcopy the copy has the same dump including coordinates, generates the same C text, shares no node, list or "
    "Coord object with the original, and mutating every attribute and list of the copy leaves the original's dump unchanged. "
    "The tree rebuilt from repr() must also generate the same text under both generator configurations; every second AST is "
    "pickled / deep-copied while weak references to all of its nodes are alive. Non-trivial: the AST contains a string/char constant with a quote or backslash, or >= 10 node classes; distinct by hash of "
    "the source."
    ' File names in coordinates: two thirds of the programs are parsed under one of 17 other file names (drive letters and other colons, blanks, quotes, backslashes, non-ASCII, the empty name), most of them behind a linemarker naming one of 13 further files. '
)
ASSUMPTIONS = ["nesting depth of generated ASTs stays below 40 so that eval/pickle recursion limits are never the cause of a failure"]

HOSTILE_STR = [
    '"plain"', '"q\\"uote"', '"back\\\\slash"', '"\\x41\\101\\n"', '"café 中"', '"\'"', 'L"w\\"q"', '"%s\\t"', '"]\\n["',
    '"),\\n ("', '"coord=None"', 'u8"\\\\\\""', '"\\\\n"', '""',
    '"smile \U0001F600"', 'U"\U00020000 \U0001D4B6"', '"\x7f\x01 ctl"', '"\u2028 sep \xad"',
]  # fmt: skip
HOSTILE_CHR = ["'\\''", "'\\\\'", "'\"'", "L'\\n'", "'é'", "'\\x7f'", "L'\U00020000'", "U'\U0001F600'"]
HOSTILE_PRAGMA = ['weird "text" \\ \'q\'', "café", "])\n"[:2], "a\\", "  ", "emoji \U0001F600 \U0001D4B6"]


def hostile(m, c):
    """replace some string/char constants and pragma texts by hostile ones"""
    if isinstance(m, tuple):
        if m and m[0] == "str" and c.chance(0.7):
            first = c.choice(HOSTILE_STR)
            # (mixed-prefix concatenation is finding F9 of C01: not drawn here)
            more = [c.choice(['"x"', '"\\\\"'])] if c.chance(0.3) and first.startswith('"') else []
            return ("str", [first] + more)
        if m and m[0] == "const" and m[2] == "char" and c.chance(0.7):
            return ("const", c.choice(HOSTILE_CHR), "char")
        if m and m[0] == "pragma" and len(m) == 2 and c.chance(0.5):
            return ("pragma", c.choice(HOSTILE_PRAGMA))
        return tuple(hostile(x, c) for x in m)
    if isinstance(m, list):
        return [hostile(x, c) for x in m]
    return m


def ids(n, acc):
    if isinstance(n, c_ast.Node):
        acc.add(id(n))
        if n.coord is not None:
            acc.add(id(n.coord))
        for s in n.__slots__:
            if s not in ("coord", "__weakref__"):
                ids(getattr(n, s), acc)
    elif isinstance(n, list):
        acc.add(id(n))
        for x in n:
            ids(x, acc)


def mutate(n):
    if isinstance(n, c_ast.Node):
        for s in n.__slots__:
            if s in ("coord", "__weakref__"):
                continue
            v = getattr(n, s)
            if isinstance(v, str):
                setattr(n, s, v + "_X")
            elif isinstance(v, list):
                for x in v:
                    mutate(x)
                v.append("JUNK")
            else:
                mutate(v)
        if n.coord is not None and hasattr(n.coord, "line"):
            n.coord.line = -1
            n.coord.file = "mutated"


def abort_midway(ast):
    """repr(), pickling and deep-copying of the tree, each started with so few
    stack frames left that it is cut short by a RecursionError"""
    import sys

    def shallow(fn):
        depth = len(__import__("inspect").stack(0))
        old = sys.getrecursionlimit()
        sys.setrecursionlimit(depth + 14)
        try:
            fn()
        except RecursionError:
            return True
        except Exception:  # noqa: BLE001
            return False
        finally:
            sys.setrecursionlimit(old)
        return False

    n = 0
    n += shallow(lambda: repr(ast))
    n += shallow(lambda: pickle.dumps(ast, protocol=2))
    n += shallow(lambda: copy.deepcopy(ast))
    return n


def check_ast(ast, src, case):
    if len(src) % 5 == 0:
        # whatever an interrupted attempt leaves behind must not show afterwards
        abort_midway(ast)
    ns = {k: getattr(c_ast, k) for k in dir(c_ast)}
    d0c = dump(ast, True)
    d0 = dump(ast)
    try:
        back = eval(repr(ast), ns)
    except RecursionError:
        back = None
    except Exception as e:  # noqa: BLE001
        fail("repr", case, src, "eval(repr(ast)) raised %s: %s" % (type(e).__name__, str(e)[:200]), "repr-exc:" + type(e).__name__)
    if back is not None and dump(back) != d0:
        fail("repr", case, src, "eval(repr(ast)) differs at %s" % (first_difference(d0, dump(back)),), "repr-differs")
    try:
        g0 = c_generator.CGenerator().visit(ast)
        g0r = c_generator.CGenerator(reduce_parentheses=True).visit(ast)
    except Exception:  # noqa: BLE001 - generator defects are C07's business
        g0 = g0r = None
    # "the rebuilt trees generate exactly the same C text": the tree rebuilt from
    # repr() has no shared sub-objects (the parser puts one specifier node under
    # every declarator of a declaration) - the text must not depend on that
    if back is not None and g0 is not None:
        try:
            gb = c_generator.CGenerator().visit(back)
            gbr = c_generator.CGenerator(reduce_parentheses=True).visit(back)
        except Exception as e:  # noqa: BLE001
            fail("repr", case, src, "CGenerator raised %s on eval(repr(ast)) but not on the original" % type(e).__name__, "repr-gen-exc")
        if gb != g0 or gbr != g0r:
            fail("repr", case, src, "eval(repr(ast)) is structurally identical but generates different C text", "repr-gen-differs")
    copies = []
    # nodes carry a __weakref__ slot so that users can keep weak references to
    # them (a weak child -> parent map is the usual reason): every second AST is
    # copied while such references are alive
    import weakref

    from ..astdump import walk

    alive = [weakref.ref(n) for n in walk(ast)] if len(d0) % 2 == 0 or len(src) % 2 == 0 else []
    for p in range(2, pickle.HIGHEST_PROTOCOL + 1):
        try:
            cp = pickle.loads(pickle.dumps(ast, protocol=p))
        except RecursionError:
            continue
        except Exception as e:  # noqa: BLE001
            fail("pickle", case, src, "pickle protocol %d raised %s: %s" % (p, type(e).__name__, str(e)[:200]), "pickle-exc:" + type(e).__name__)
        copies.append(("pickle%d" % p, cp))
    try:
        copies.append(("deepcopy", copy.deepcopy(ast)))
    except RecursionError:
        pass
    except Exception as e:  # noqa: BLE001
        fail("deepcopy", case, src, "deepcopy raised %s: %s" % (type(e).__name__, str(e)[:200]), "deepcopy-exc:" + type(e).__name__)
    s0 = set()
    ids(ast, s0)
    for name, cp in copies:
        kind = "pickle" if name.startswith("pickle") else "deepcopy"
        dc = dump(cp, True)
        if dc != d0c:
            fail(kind, case, src, "%s copy differs at %s" % (name, first_difference(d0c, dc)), kind + "-differs")
        if g0 is not None and (c_generator.CGenerator().visit(cp) != g0 or c_generator.CGenerator(reduce_parentheses=True).visit(cp) != g0r):
            fail(kind, case, src, "%s copy generates different C text" % name, kind + "-gen-differs")
        s = set()
        ids(cp, s)
        if s & s0:
            fail(kind, case, src, "%s copy shares %d objects with the original" % (name, len(s & s0)), kind + "-shares")
        mutate(cp)
        if dump(ast, True) != d0c:
            fail(kind, case, src, "mutating the %s copy changed the original" % name, kind + "-not-independent")
    del alive


def nontrivial(ast):
    from ..astdump import walk

    classes = set()
    hostile_const = False
    for n in walk(ast):
        classes.add(type(n).__name__)
        if isinstance(n, c_ast.Constant) and isinstance(n.value, str) and ("\\" in n.value or n.value.count('"') > 2 or "'\"'" == n.value or n.value.count("'") > 2):
            hostile_const = True
    return hostile_const or len(classes) >= 10


FILE_NAMES = ["f.c", "f.c", "", "C:\\proj\\src\\main.c", "a:1", "dir/h.h", "a b.c", "x:y:z.h", "\u00e9t\u00e9.c", "it's.c", 'q"r.c', "<stdin>", "f.c:3:4", "-", "\\", "[1]", "%s%d", "a\tb.c"]
MARKER_NAMES = ["g.h", "C:/proj/include/cfg.h", "a:1", "http://h/x.h", ":", "f.c:3:4", "<built-in>", "d e/f g.h", "\u00fc.h", "it's.h", "[0]", "{}", ""]


def random_shard(arg):
    seed, n = arg
    st = Stats()

    def body(c):
        g = gen.G(c, quarantine=(), max_nodes=250)
        tu = M.freshen(hostile(gen.gen_unit(g), c))
        src = unit_text(tu, "min")
        # file names of every shape in the coordinates: the one given to parse()
        # and one set by a linemarker in front of the text
        fname = c.choice(FILE_NAMES)
        case = ("unit", tu)
        if fname != "f.c" or c.chance(0.3):
            if c.chance(0.6):
                src = '# %d "%s"\n' % (c.int(1, 99), c.choice(MARKER_NAMES)) + src
            case = ("named", src, fname)
            st.classes["file_name_other_than_f.c"] += 1
        out = parse_outcome(src, fname, (fname,) + tuple(MARKER_NAMES))
        st.evaluations += 1
        if out[0] != "ast":
            st.classes["rejected"] += 1
            return
        check_ast(out[1], src, case)
        if nontrivial(out[1]):
            st.nt(src)
        st.classes["asts"] += 1
        if st.evaluations % 201 == 1:
            st.sample(src.split("\n", 1)[1][:300])

    hyp_search(body, seed, n, st)
    return st


def corpus_shard(arg):
    name, text = arg
    st = Stats()
    out = parse_outcome(text, name.split("@")[0], (name.split("@")[0],))
    st.evaluations += 1
    if out[0] != "ast":
        return st
    try:
        check_ast(out[1], "<corpus file %s>" % name, ("text", text))
        st.nt(name)
    except CheckFailure as f:
        st.failures.append(f.failure)
    return st


def run(ctx):
    ctx.map(random_shard, [(s, ctx.pick(450, 6000)) for s in ctx.shard_seeds(16)])
    ctx.map(corpus_shard, corpus(big=not ctx.quick))


def replay(subcheck, case):
    if case[0] == "unit":
        src = unit_text(M.freshen(case[1]), "min")
    else:
        src = case[1]
    fname = case[2] if case[0] == "named" else "f.c"
    out = parse_outcome(src, fname, (fname,))
    if out[0] == "ast":
        check_ast(out[1], src, case)
