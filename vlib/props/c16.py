"""C16 - parsing work grows linearly with input size."""
import itertools
import sys
import threading
import time

from pycparser import c_parser
from pycparser.c_lexer import CLexer

from ..runner import CheckFailure, Stats, fail, hyp_search

ID = "C16"
RULE = (
    "Scalable input families k -> text. Nesting families: a unit composed of 1-3 constructs (46 expression units: parentheses, "
    "casts, sizeof, calls, subscripts, unary chains, ?:, assignments, compound literals, type names inside array bounds ...; 14 "
    "statement units; 9 declarator units) nested k deep - all single units and all ordered pairs are enumerated, Hypothesis "
    "composes triples; repetition families: k-fold repetition of every declaration/statement kind and long "
    "operator/argument/initializer/parameter/enumerator/member/string chains. Oracle (deterministic): number of Python call "
    "events whose code lives under the pycparser package (sys.setprofile) at k = 8, 16, 32; repetition families are measured in "
    "LINE events (sys.settrace) at k = 50, 100, 200, which also sees loops that call nothing (e.g. walking a scope stack); "
    "required steps(2k) <= 2.3 * steps(k) + 400 at every doubling; a family is cut off and fails when it exceeds 50x the linear "
    "extrapolation. Lexer regexes (work invisible to the profiler): adversarial literal prefixes of length n = 64..512 (runs of "
    "\\123, \\x41, \\\\, digits, hex digits, './e', unterminated quotes, quote runs, comment openers) timed best-of-5: fails "
    "only if t(2n) > 3.5 t(n) on two consecutive doublings with t > 20 ms, or a 300-character input takes > 1 s; work hidden from the call counter "
    "in the parser (list copies, dict merges, string concatenation) is measured in executed machine instructions of a fresh interpreter "
    "under valgrind at k and 4k for 9 / 18 families (at most 8% of the work at 4k in excess of linear growth). Repetition families are "
    "measured in line events at four doubling sizes (ratio and second-difference tests); no input is followed beyond 16x its allowance. Non-trivial: families whose unit contains a '('-type-name or a declarator "
    "look-ahead; distinct by construction (enumeration) / hash of the unit (Hypothesis)."
)
ASSUMPTIONS = [
    "timing thresholds have margins of several orders of magnitude; a loaded machine yields 'inconclusive', never a violation",
    "the unit 'compound literal inside the array bound of a compound literal's type name' is excluded (known finding F30)",
]

E = [
    ("(", ")"), ("(int)(", ")"), ("(T)(", ")"), ("sizeof(", ")"), ("sizeof ", ""), ("f(", ")"), ("f(1, ", ")"), ("a[", "]"),
    ("(int[", "]){0}"), ("sizeof(int[", "])"), ("(int(*)[", "])0"), ("_Alignof(int[", "])"), ("-", ""), ("!", ""), ("*", ""),
    ("&", ""), ("++", ""), ("1 ? ", " : 2"), ("1 ? 2 : ", ""), ("x = ", ""), ("(x, ", ")"), ("1 + ", ""), ("", " + 1"),
    ("(struct S){", "}"), ("(struct S){.m = ", "}"), ("(int[]){[", "] = 1}"), ("offsetof(struct S, a[", "])"),
    ("sizeof(struct { int q[", "];})"), ("(T)", ""), ("(T)-", ""), ("(", ")++"), ("(", ")(1)"), ("(", ")[1]"), ("(", ").m"),
    ("a.", ""), ("a->", ""),
    # the hole as LEFT operand (assignment targets, condition of ?:, comma, binary)
    ("(", ") = 1"), ("(", ") += 1"), ("*(", ") = 1"), ("", " ? 1 : 2"), ("", ", 1"), ("", " && 1"), ("", " < 1"), ("", " * 2"), ("&(", ")"), ("(", ")->m"),
]  # fmt: skip
# tag bodies nested in members / declarations: (opening, closing) around 'int x;'
TB = [
    ("struct { ", " } a, b;"), ("struct { ", " } a;"), ("union { ", " } u, *v;"), ("struct { int m; ", " } a, b, c;"), ("struct { struct { ", " } p, q; } r, s;"),
    ("struct { int h; union { ", " } w; } z[2], y;"), ("enum { K = sizeof(struct { ", " }) } e1, e2;"),
]
S = [
    ("{ ", " }"), ("if (1) ", ""), ("if (1) ; else ", ""), ("if (1) ", " else ;"), ("while (1) ", ""), ("for (;;) ", ""),
    ("for (int i = 0;;) ", ""), ("do ", " while (0);"), ("switch (1) ", ""), ("switch (1) { case 1: ", " }"), ("case 1: ", ""),
    ("default: ", ""), ("L: ", ""), ("\n#pragma p\n", ""),
]  # fmt: skip
D = [("*", ""), ("* const ", ""), ("(", ")"), ("", "[1]"), ("", "(void)"), ("(*", ")(void)"), ("(*", ")[2]"), ("", "(int a)"), ("", "[]")]
QUARANTINED_REPEAT = ("array_dims",)  # F34: k array suffixes on one declarator cost k^2 (tail walk per suffix)
QUARANTINED_UNIT = ("(int[", "]){0}")  # F30: compound literal in the type name of a compound literal


def build(kind, us, k):
    o = ""
    c = ""
    for _ in range(k):
        for a, b in us:
            o += a
            c = b + c
    if kind == "E":
        return "typedef int T; struct S { int m; int a[3]; }; int x = " + o + "1" + c + ";"
    if kind == "S":
        return "void f(void) { " + o + ";" + c + " }"
    if kind == "T":
        return o + "int x;" + c
    return "int " + o + "x" + c + ";"


REPEAT = {
    "decl": lambda k: "".join("int v%d;\n" % i for i in range(k)),
    "typedef_use": lambda k: "typedef int T;" + "".join("T v%d;\n" % i for i in range(k)),
    "fdef": lambda k: "".join("void f%d(int a) { return; }\n" % i for i in range(k)),
    "expr_stmt": lambda k: "void f(void){" + "a = b + 1;" * k + "}",
    "if_stmt": lambda k: "void f(void){" + "if (a) b; else c;" * k + "}",
    "loops": lambda k: "void f(void){" + "for (i = 0; i < 3; i++) { while (a) do b; while (c); }" * k + "}",
    "switch_cases": lambda k: "void f(void){ switch (x) {" + "".join("case %d: a; break;" % i for i in range(k)) + "} }",
    "labels_gotos": lambda k: "void f(void){" + "".join("L%d: goto L%d;" % (i, i) for i in range(k)) + "}",
    "block_decls": lambda k: "void f(void){" + "".join("int v%d = %d;" % (i, i) for i in range(k)) + "}",
    "binary_chain": lambda k: "int x = " + "a + " * k + "1;",
    "mixed_prec_chain": lambda k: "int x = " + "a * b + c << 2 | " * k + "1;",
    "assign_chain": lambda k: "void f(void){ " + "a = " * k + "1; }",
    "comma_chain": lambda k: "void f(void){ " + "a, " * k + "b; }",
    "args": lambda k: "void f(void){ g(" + "a, " * k + "b); }",
    "init_list": lambda k: "int x[] = {" + "1, " * k + "2};",
    "designated": lambda k: "struct S s = {" + "".join(".m%d = %d, " % (i, i) for i in range(k)) + "};",
    "designator_chain": lambda k: "struct S s = { " + ".a[1]" * k + " = 1 };",
    "params": lambda k: "void f(" + "".join("int p%d, " % i for i in range(k)) + "int q);",
    "knr_params": lambda k: "int f(" + ", ".join("p%d" % i for i in range(k)) + ") " + "".join("int p%d;" % i for i in range(k)) + " { return 0; }",
    "enumerators": lambda k: "enum E {" + "".join("K%d = %d, " % (i, i) for i in range(k)) + "KL };",
    "members": lambda k: "struct S {" + "".join("int m%d : 3; " % i for i in range(k)) + "};",
    "strings": lambda k: "char *s = " + '"ab" ' * k + ";",
    "wstrings": lambda k: "int *s = " + 'L"ab" ' * k + ";",
    "array_dims": lambda k: "int a" + "[2]" * k + ";",
    "pointer_stars": lambda k: "int " + "* const " * k + "p;",
    "declarators": lambda k: "int " + ", ".join("*v%d[2]" % i for i in range(k)) + ";",
    "specifiers": lambda k: "const volatile " * k + "int x;",
    "postfix_chain": lambda k: "int x = a" + "[1].m->n(2)" * k + ";",
    "pragmas": lambda k: "#pragma once\n" * k + "int x;",
    "linemarkers": lambda k: "".join('# %d "f%d.h"\nint v%d;\n' % (i + 1, i, i) for i in range(k)),
    "static_asserts": lambda k: '_Static_assert(1, "m");' * k,
    "semicolons": lambda k: ";" * k + "int x;",
    "casts_seq": lambda k: "void f(void){" + "(T)(a); (a)(b);" * k + "}",
    "knr_fdefs": lambda k: "typedef int T; int g0;" + "".join("int f%d(a, b) int a; T *b; { return h(a) + g0 + b[0]; }\n" % i for i in range(k)),
    "fdefs_with_locals": lambda k: "typedef int T;" + "".join("static T f%d(T a, int *b) { int c = a; { T d = c + g(b); } return c; }\n" % i for i in range(k)),
    "nested_blocks_seq": lambda k: "void f(void){" + "{ int a; { int b; } }" * k + "}",
    "for_decl_seq": lambda k: "void f(void){" + "for (int i = 0; i < n; i++) s += i;" * k + "}",
    "typedef_chain": lambda k: "typedef int t0;" + "".join("typedef t%d t%d;" % (i, i + 1) for i in range(k)),
    # positions inside a switch body / a labelled statement / a declaration
    "switch_leading_stmts": lambda k: "void f(int x, int a){ switch (x) { " + "a = 1; " * k + "case 1: break; } }",
    "switch_leading_decls": lambda k: "void f(int x){ switch (x) { " + "".join("int v%d; " % i for i in range(k)) + "case 1: break; } }",
    "case_body_stmts": lambda k: "void f(int x, int a){ switch (x) { case 1: " + "a = 1; " * k + "break; default: " + "a = 2; " * k + "} }",
    "default_in_the_middle": lambda k: "void f(int x){ switch (x) { " + "".join("case %d: a; " % i for i in range(k)) + "default: b; " + "".join("case %d: c; " % (i + k) for i in range(k)) + "} }",
    "pragma_run_before_stmt": lambda k: "void f(void){ if (a)\n" + "#pragma x\n" * k + "b; }",
    "typedef_names": lambda k: "typedef int " + ", ".join("t%d" % i for i in range(k)) + "; t0 x;",
    "init_declarators": lambda k: "int " + ", ".join("a%d = %d" % (i, i) for i in range(k)) + ";",
    "struct_member_list": lambda k: "struct S { int " + ", ".join("m%d" % i for i in range(k)) + "; };",
    "compound_literals_seq": lambda k: "struct S { int m; }; void f(void){" + "(struct S){1}; " * k + "}",
    "alignas_seq": lambda k: "_Alignas(8) " * k + "int x;",
    "fn_ptr_params": lambda k: "void f(" + "".join("int (*p%d)(int, char *), " % i for i in range(k)) + "int q);",
    "ternary_seq": lambda k: "void f(void){" + "a ? b : c; " * k + "}",
    "sizeof_seq": lambda k: "typedef int T; void f(void){" + "x = sizeof(T) + sizeof y + sizeof(y); " * k + "}",
    "enum_defs_in_fn": lambda k: "void f(void){" + "".join("enum { A%d, B%d }; " % (i, i) for i in range(k)) + "}",
    # two things growing together: many visible names AND many scopes / uses of them
    "globals_and_typedef_blocks": lambda k: "int " + ", ".join("g%d" % i for i in range(k)) + "; void f(void){" + "{ typedef int T; T x = 1; } " * k + "}",
    "typedefs_and_uses": lambda k: "".join("typedef int t%d; " % i for i in range(k)) + "void f(void){" + "".join("t%d v%d; " % (i, i) for i in range(k)) + "}",
    "globals_and_functions": lambda k: "".join("int g%d; " % i for i in range(k)) + "".join("int f%d(int a) { int b = a + g%d; return b; } " % (i, i) for i in range(k)),
    "enumerators_and_uses": lambda k: "enum E { " + ", ".join("K%d" % i for i in range(k)) + " }; int s = " + " + ".join("K%d" % i for i in range(k)) + ";",
    "tags_and_uses": lambda k: "".join("struct S%d { int m; }; " % i for i in range(k)) + "".join("struct S%d v%d; " % (i, i) for i in range(k)),
    "params_and_body_uses": lambda k: "int f(" + ", ".join("int p%d" % i for i in range(k)) + ") { return " + " + ".join("p%d" % i for i in range(k)) + "; }",
    "nested_scopes_and_lookups": lambda k: "typedef int T; void f(void){" + "{ T a; " * min(k, 60) + "T z; " * k + "} " * min(k, 60) + "}",
    "struct_defs": lambda k: "".join("struct S%d { int a; struct S%d *p; };" % (i, i) for i in range(k)),
}


def _in_pkg_prefix():
    import pycparser
    import os

    return os.path.dirname(os.path.abspath(pycparser.__file__)) + os.sep


_PKG = None


class _OverBudget(BaseException):
    pass


def _utime():
    """user-mode CPU time of the calling thread: the kernel's work for page faults
    (deep recursion touches fresh stack pages; they cost milliseconds each on a
    loaded machine here) is not work of the parser"""
    import resource

    return resource.getrusage(resource.RUSAGE_THREAD).ru_utime


def steps(src, limit=None):
    """(calls under the pycparser package, wall seconds, outcome); with a limit
    the parse is abandoned once it has made that many calls (outcome 'budget')"""
    global _PKG
    if _PKG is None:
        _PKG = _in_pkg_prefix()
    cnt = [0]
    pkg = _PKG
    lim = limit or 1 << 62

    cpu_lim = max(CPU_BUDGET, len(src) / 200.0) if (limit and not _NO_CPU_LIMIT[0]) else None
    t_start = _utime()

    def prof(frame, event, arg):
        # every Python-level call made while parse() runs counts, also those the
        # package makes into the standard library (copy.deepcopy, dataclass
        # constructors): they are work of the parse
        if event == "call":
            cnt[0] += 1
            if cnt[0] > lim:
                raise _OverBudget()
            if cpu_lim is not None and (cnt[0] & 1023) == 0 and _utime() - t_start > cpu_lim:
                raise _OverBudget("cpu")

    p = c_parser.CParser()
    sys.setprofile(prof)
    t = time.thread_time()
    try:
        p.parse(src, "f.c")
        ok = True
    except c_parser.ParseError as e:
        ok = "ParseError: " + str(e)[:80]
    except RecursionError:
        ok = "RecursionError"
    except _OverBudget as e:
        ok = "budget-cpu" if e.args else "budget"
    finally:
        sys.setprofile(None)
    return cnt[0], time.thread_time() - t, ok


def steps_lines(src, limit=None):
    """(LINE events under the pycparser package, cpu seconds, outcome): unlike call
    counts this sees work done in loops that call nothing (walking a scope stack,
    scanning a buffer)"""
    global _PKG
    if _PKG is None:
        _PKG = _in_pkg_prefix()
    cnt = [0]
    pkg = _PKG

    lim = limit or 1 << 62
    cpu_lim = max(CPU_BUDGET, len(src) / 200.0) if (limit and not _NO_CPU_LIMIT[0]) else None
    t_start = _utime()

    def local(frame, event, arg):
        if event == "line":
            cnt[0] += 1
            if cnt[0] > lim:
                raise _OverBudget()
            if cpu_lim is not None and (cnt[0] & 4095) == 0 and _utime() - t_start > cpu_lim:
                raise _OverBudget("cpu")
        return local

    def tracer(frame, event, arg):
        return local

    p = c_parser.CParser()
    sys.settrace(tracer)
    t = time.thread_time()
    try:
        p.parse(src, "f.c")
        ok = True
    except c_parser.ParseError as e:
        ok = "ParseError: " + str(e)[:80]
    except RecursionError:
        ok = "RecursionError"
    except _OverBudget as e:
        ok = "budget-cpu" if e.args else "budget"
    finally:
        sys.settrace(None)
    return cnt[0], time.thread_time() - t, ok


def in_big_thread(fn, *a):
    out = []
    old = sys.getrecursionlimit()
    sys.setrecursionlimit(200000)
    threading.stack_size(512 * 1024 * 1024)

    def run():
        try:
            out.append(("ok", fn(*a)))
        except BaseException as e:  # noqa: BLE001
            out.append(("exc", e))

    t = threading.Thread(target=run)
    t.start()
    t.join()
    threading.stack_size(0)
    sys.setrecursionlimit(old)
    if out[0][0] == "exc":
        raise out[0][1]
    return out[0][1]


_NO_CPU_LIMIT = [False]
VALGRIND_LIMIT = 300  # wall seconds for one confirming run


def cpu_alarm_confirmed(src, prev_src):
    """A CPU budget hit is a hint, never a verdict: on an oversubscribed VM the
    user-mode time charged to a thread was seen to be several hundred times the
    work it did (32 s for a parse of 0.1 s).  The verdict comes from the number
    of machine instructions a fresh interpreter executes for the same text
    (valgrind; independent of load): -> (True, why) the input really explodes,
    (False, why) it does not, (None, why) cannot be decided here."""
    from .. import icount

    try:
        base = icount.baseline()
        a = icount.instructions(src, timeout=VALGRIND_LIMIT) - base
    except icount.Unavailable as e:
        if "exceeded" in str(e):
            return True, "under valgrind the same input did not finish within %d s (inputs of this size take 15 - 60 s there, 15 s of native CPU time about 750 s)" % VALGRIND_LIMIT
        return None, str(e)
    per_char = a / float(max(len(src), 1))
    if prev_src is not None:
        try:
            b = icount.instructions(prev_src, timeout=VALGRIND_LIMIT) - base
        except icount.Unavailable as e:
            return None, str(e)
        prev_per_char = b / float(max(len(prev_src), 1))
        if per_char > 4 * prev_per_char and per_char > 400000:
            return True, "%d instructions for %d characters against %d for %d characters of the size before" % (a, len(src), b, len(prev_src))
        return False, "%d instructions for %d characters, %d for %d characters of the size before" % (a, len(src), b, len(prev_src))
    if per_char > 5000000:
        return True, "%d instructions for %d characters (ordinary input: 30 000 - 300 000 per character)" % (a, len(src))
    return False, "%d instructions for %d characters" % (a, len(src))


CPU_BUDGET = 15.0  # seconds of user-mode thread CPU time for one parse of a family member (the unchanged tree needs < 0.1 s)
FIRST_SIZE_BUDGET = 3000000  # events; the smallest members of all families take < 60 000 on the unchanged tree
RATIO = 2.3
SLACK = 400


def check_family(name, builder, ks, st, case, measure=None):
    """builder(k) -> text.  Returns True if the family is valid (parses)."""
    prev = None
    series = []
    measure = measure or steps
    for k in ks:
        src = builder(k)
        # no input of a family is followed beyond 16x the allowance for its size:
        # exponential work is reported, not waited for
        budget = FIRST_SIZE_BUDGET if prev is None else int(16 * (RATIO * prev[1] + SLACK) * max(1.0, float(k) / (2 * prev[0])))
        n, t, ok = measure(src, budget)
        st.evaluations += 1
        if ok == "budget-cpu":
            # (CPU time of this thread, 1000x above what the unchanged tree needs for
            # inputs of this length: work inside C-level operations that events do not see)
            allowance = None if prev is None else (RATIO * prev[1] + SLACK) * max(1.0, float(k) / (2 * prev[0]))
            if allowance is not None and n > allowance:
                # no need for a clock: when it was abandoned the parse had already made
                # more calls than its size allows
                fail("growth", case, builder(ks[0]), "family %s: work %s - at k=%d the parse was abandoned after %d events, more than the %d that doubling allows (k=%d took %d)" % (name, series, k, n, allowance, prev[0], prev[1]), "superlinear")
            verdict, why = cpu_alarm_confirmed(src, builder(prev[0]) if prev is not None else None)
            if verdict is None:
                st.classes["cpu_budget_hit_undecided"] += 1
                st.notes["cpu_budget_hit_undecided"] = "family %s k=%d: %s" % (name, k, why)
                return True  # no claim for the rest of this family
            if verdict is False:
                # a busy machine, not the parser: measure again without the CPU limit
                st.classes["cpu_budget_hit_not_confirmed_by_instruction_count"] += 1
                _NO_CPU_LIMIT[0] = True
                try:
                    n, t, ok = measure(src, budget)
                finally:
                    _NO_CPU_LIMIT[0] = False
        if ok == "budget-cpu":
            fail("growth", case, src[:400], "family %s: at k=%d (%d characters) the parse was abandoned after %.0f s of CPU time and %d events, and %s; the sizes before: %s" % (name, k, len(src), max(CPU_BUDGET, len(src) / 200.0), n, why, series), "short-input-explodes")
        if ok == "budget" and prev is None:
            fail("growth", case, src[:400], "family %s: its smallest member (k=%d, %d characters) was abandoned after %d events - no input of a few hundred characters may cost that much" % (name, k, len(src), n), "short-input-explodes")
        if ok == "budget":
            fail("growth", case, builder(ks[0]), "family %s: work %s - at k=%d the parse was abandoned after %d events (16x what doubling allows; k=%d took %d)" % (name, series, k, n, prev[0], prev[1]), "superlinear")
        if ok is not True:
            if prev is None:
                return False  # not a valid family: no claim
            if ok == "RecursionError":
                break  # deeper than the interpreter allows: tolerated by C06, nothing to measure
            return False
        series.append((k, n, round(t, 4)))
        if prev is not None:
            pk, pn = prev
            if n > RATIO * pn + SLACK:
                fail("growth", case, builder(ks[0]), "family %s: work (pycparser calls) %s - at k=%d it is %.2fx the work at k=%d (allowed %.1fx + %d)" % (name, series, k, n / max(pn, 1), pk, RATIO, SLACK), "superlinear")
        prev = (k, n)
    # a small quadratic term hides behind a large linear one at these sizes: with
    # four doubling sizes the second differences d_i = n(2k_i) - 2 n(k_i) cancel the
    # linear part, and their increments e_i = d_(i+1) - d_i cancel a constant offset
    # as well: e stays 0 for a + b k, doubles for k log k, quadruples for k^2
    if len(series) >= 4 and all(series[i + 1][0] == 2 * series[i][0] for i in range(len(series) - 4, len(series) - 1)):
        n1, n2, n3, n4 = [s[1] for s in series[-4:]]
        d1, d2, d3 = n2 - 2 * n1, n3 - 2 * n2, n4 - 2 * n3
        e1, e2 = d2 - d1, d3 - d2
        if e2 > 0.03 * n4 + SLACK and e2 > 3 * max(e1, 0) - SLACK and d3 > 0.03 * n4:
            fail("growth", case, builder(ks[0]), "family %s: work %s has a quadratic component: second differences %s grow by %s (x4 per doubling = k^2, x2 = k log k, 0 = linear); the excess over linear at k=%d is %.0f%% of the work" % (name, series, (d1, d2, d3), (e1, e2), series[-1][0], 100.0 * d3 / n4), "superlinear-2nd-difference")
    return True


def nontrivial_units(us):
    txt = "".join(a + b for a, b in us)
    return any(x in txt for x in ("(int", "(T)", "sizeof(", "(struct", "_Alignof(", "offsetof(", "(*"))


def nest_shard(arg):
    kind, part, nparts, quick = arg
    st = Stats()
    units = {"E": E, "S": S, "D": D, "T": TB}[kind]
    combos = [(u,) for u in units] + list(itertools.permutations(units, 2))
    ks = (8, 16, 32) if not quick else (6, 12, 24)

    def job():
        for i, us in enumerate(combos):
            if i % nparts != part:
                continue
            if QUARANTINED_UNIT in us:
                st.excluded["cx.compound_literal_in_type_name_of_compound_literal(F30)"] += 1
                continue
            kk = ks if len(us) == 1 else tuple(k // 2 for k in ks)
            name = kind + ":" + " ".join(a + "_" + b for a, b in us)
            try:
                valid = check_family(name, lambda k, us=us: build(kind, us, k), kk, st, ("nest", kind, [list(u) for u in us], list(kk)))
            except CheckFailure as f:
                st.failures.append(f.failure)
                if len(st.failures) >= 4:
                    return  # enough evidence from this part; every failure may have cost a CPU budget
                continue
            if valid:
                st.classes["valid_families"] += 1
                if nontrivial_units(us):
                    st.nontrivial += 1
                if i % 97 == 3:
                    st.sample(build(kind, us, 3))
            else:
                st.classes["invalid_families_no_claim"] += 1

    in_big_thread(job)
    return st


def repeat_shard(arg):
    names, quick = arg
    st = Stats()
    ks = (25, 50, 100, 200) if quick else (100, 200, 400, 800)

    def job():
        for name in names:
            if name in QUARANTINED_REPEAT:
                st.excluded["cx.%s(F34)" % name] += 1
                continue
            try:
                valid = check_family("repeat:" + name, REPEAT[name], ks, st, ("repeat", name, list(ks)), measure=steps_lines)
            except CheckFailure as f:
                st.failures.append(f.failure)
                continue
            if valid:
                st.classes["valid_families"] += 1
                st.nontrivial += 1
            else:
                st.classes["invalid_families_no_claim"] += 1
                st.failures.append(dict(subcheck="harness", case=("repeat", name, list(ks)), text=REPEAT[name](3), detail="repetition family %s does not parse" % name, sig="harness-invalid-family"))

    in_big_thread(job)
    return st


# family -> k of the smaller input in the quick tier (about 0.5-1 G instructions at 4k; doubled in the thorough tier)
BIG = {
    "strings": 1600, "knr_fdefs": 250, "fdefs_with_locals": 250, "decl": 1600, "typedef_use": 1600, "expr_stmt": 1000, "args": 3200, "init_list": 3200,
    "wstrings": 1600, "enumerators": 1600, "block_decls": 1000, "params": 1600, "members": 1000, "switch_cases": 1000, "linemarkers": 1000,
    "struct_defs": 600, "typedef_names": 1600, "init_declarators": 1600,
}  # fmt: skip


def big_shard(arg):
    """Quadratic work hidden inside single C-level operations (list copies, dict
    merges, string concatenation) is invisible to call and line events.  It is
    measured in executed machine instructions (vlib/icount.py: a fresh
    interpreter under valgrind's instruction counter, reproducible to 0.001 %
    whatever the machine load): I(k) = instructions(family(k)) - instructions('int x;').
    Linear work gives I(4k) = 4 I(k); the excess I(4k) - 4 I(k) must stay below
    EXCESS of I(4k)."""
    from .. import icount

    name, k1 = arg
    st = Stats()
    f = REPEAT[name]
    k2 = 4 * k1
    try:
        base = icount.baseline()
        i1 = icount.instructions(f(k1)) - base
        i2 = icount.instructions(f(k2)) - base
    except icount.Unavailable as e:
        # no instruction counter: CPU time is only good for a note, never for a verdict
        st.classes["big_inputs_not_measured(no valgrind)"] += 1
        st.notes["icount_unavailable"] = str(e)[:200]
        return st
    st.evaluations += 2
    st.classes["big_inputs"] += 1
    excess = (i2 - 4 * i1) / float(max(i2, 1))
    st.notes["instructions_%s" % name] = "k=%d: %d, k=%d: %d, ratio %.3f, excess over linear %.1f%%" % (k1, i1, k2, i2, i2 / float(max(i1, 1)), 100 * excess)
    if excess > EXCESS:
        st.failures.append(dict(subcheck="growth", case=("big", name, k1), text=f(3), detail="family %s: %d instructions at k=%d, %d at k=%d (x%.2f for 4x the input): %.1f%% of the work at k=%d is in excess of linear growth (allowed %.0f%%)" % (name, i1, k1, i2, k2, i2 / float(max(i1, 1)), 100 * excess, k2, 100 * EXCESS), sig="superlinear-instructions"))
    st.nontrivial += 1
    return st


EXCESS = 0.08


def steps_noprofile(src):
    p = c_parser.CParser()
    t = time.thread_time()
    p.parse(src, "f.c")
    return time.thread_time() - t


def triple_shard(arg):
    seed, n, quick = arg
    st = Stats()
    ks = (3, 6, 12)

    def body(c):
        kind = c.choice(["E", "E", "S", "D"])
        units = {"E": E, "S": S, "D": D}[kind]
        us = tuple(c.choice(units) for _ in range(3))
        if QUARANTINED_UNIT in us:
            st.excluded["cx.compound_literal_in_type_name_of_compound_literal(F30)"] += 1
            return
        name = kind + ":" + " ".join(a + "_" + b for a, b in us)
        valid = in_big_thread(check_family, name, lambda k: build(kind, us, k), ks, st, ("nest", kind, [list(u) for u in us], list(ks)))
        if valid:
            st.classes["valid_families"] += 1
            if nontrivial_units(us):
                st.nt(us)

    hyp_search(body, seed, n, st)
    return st


# ---------------------------------------------------------------------------
LEX_FAMILIES = {
    "octal_escapes_in_char": lambda n: "'" + "\\123" * n,
    "octal_escapes_in_string": lambda n: '"' + "\\123" * n,
    "hex_escapes_in_char": lambda n: "'" + "\\x41" * n,
    "hex_escapes_in_string": lambda n: '"' + "\\x41" * n,
    "backslashes_in_string": lambda n: '"' + "\\\\" * n,
    "backslashes_in_char": lambda n: "'" + "\\\\" * n,
    "digits": lambda n: "1" * n,
    "digits_then_junk": lambda n: "1" * n + "z",
    "octal_digits_then_9": lambda n: "0" + "7" * n + "9",
    "hex_digits": lambda n: "0x" + "f" * n,
    "hex_digits_dot": lambda n: "0x" + "f" * n + ".",
    "dots_and_e": lambda n: "1" + ".e" * n,
    "float_exponent_signs": lambda n: "1e" + "+" * n,
    "fraction_digits": lambda n: "." + "1" * n + "e",
    "unterminated_string": lambda n: '"' + "a" * n,
    "unterminated_char": lambda n: "'" + "a" * n,
    "quote_runs": lambda n: "'" * n,
    "dquote_runs": lambda n: '"' * n,
    "escaped_quotes_in_string": lambda n: '"' + '\\"' * n,
    "bad_escapes_in_string": lambda n: '"' + "\\(" * n + '"',
    "identifier": lambda n: "a" * n,
    "L_prefixes": lambda n: "L" * n + "'",
    "u8_prefixes": lambda n: "u8" * n + '"',
    "slashes": lambda n: "/ " * n + "/*",
    "decimal_escapes_in_char": lambda n: "'" + "\\9" * n,
    "multichar": lambda n: "'" + "ab" * n + "'",
    "hash_line_digits": lambda n: "#" + " 1" * n,
    "pragma_text": lambda n: "#pragma " + "x " * n,
    "punctuator_runs": lambda n: "<<=" * n + ">>>" * n + "..." * n,
    # white space is input too: a run of blanks before a token, blank lines, blanks at line ends
    "blanks_then_token": lambda n: "int" + " " * n + "x;",
    "tabs_then_token": lambda n: "int" + "\t" * n + "x;",
    "mixed_blanks_then_token": lambda n: "int" + " \t\f\v" * (n // 4 + 1) + "x;",
    "blank_lines": lambda n: "int x;" + "\n" * n + "int y;",
    "blanks_at_line_ends": lambda n: "int x;" + " \n" * n + "int y;",
    "indented_blank_lines": lambda n: "int x;" + "\n   " * n + "int y;",
}


def lex_once(text):
    lx = CLexer(lambda m, l, c: None, lambda: None, lambda: None, lambda n: False)
    lx.input(text)
    t = time.thread_time()
    for _k in range(len(text) + 3):
        if lx.token() is None:
            break
    return time.thread_time() - t


class _FirstError(Exception):
    pass


def _raise_first(m, l, c):
    raise _FirstError()


def lex_time(text, stop_at_error=False):
    """stop_at_error: like parse(), whose error callback raises - the work after
    the first lexical error is never done by a parse"""
    best = None
    for _ in range(5):
        lx = CLexer(_raise_first if stop_at_error else (lambda m, l, c: None), lambda: None, lambda: None, lambda n: False)
        lx.input(text)
        t = time.thread_time()
        try:
            for _k in range(len(text) + 3):
                if lx.token() is None:
                    break
        except _FirstError:
            pass
        dt = time.thread_time() - t
        best = dt if best is None or dt < best else best
        if dt > 2.0:
            break
    return best


def lex_alarm_confirmed(texts, kind, stop_at_error=False):
    """Timing is a hint (see cpu_alarm_confirmed): the verdict on a slow or
    super-linear lexer family comes from instruction counts of a fresh
    interpreter lexing the same texts.  kind 'slow': one text, confirmed above
    1.5e9 instructions (what 0.5 s of this interpreter executes at the very
    least; lexing 300 characters takes about 1e6); kind 'superlinear': texts of
    doubling sizes, confirmed if the count more than triples twice in a row.
    -> (True | False | None, explanation)"""
    from .. import icount

    try:
        base = icount.baseline(mode="lex")
        vals = [icount.instructions(t, timeout=600, mode="lex", stop_at_error=stop_at_error) - base for t in texts]
    except icount.Unavailable as e:
        if "exceeded" in str(e):
            return True, "under valgrind the lexer did not finish within 600 s"
        return None, str(e)
    why = "instructions executed: %s" % [(len(t), v) for t, v in zip(texts, vals)]
    if kind == "slow":
        return vals[0] > 1.5e9, why
    bad = 0
    for v1, v2 in zip(vals, vals[1:]):
        bad = bad + 1 if (v2 > 20e6 and v2 > 3.0 * max(v1, 1)) else 0
        if bad >= 2:
            return True, why
    return False, why


def _lex_failure(st, case, text, detail, sig, texts, kind, stop_at_error=False):
    verdict, why = lex_alarm_confirmed(texts, kind, stop_at_error)
    if verdict is True:
        st.failures.append(dict(subcheck="lexer-time", case=case, text=text, detail=detail + "; " + why, sig=sig))
        return True
    st.classes["timing_suspicions_not_confirmed" if verdict is False else "timing_suspicions_undecided"] += 1
    return False


def lex_shard(names):
    st = Stats()
    for name in names:
        f = LEX_FAMILIES[name]
        case = ("lex", name)
        # creep up first: an exponential regex must be caught at a size where it
        # still returns (a regex match cannot be interrupted)
        n = 2
        blown = None
        while n <= 64:
            t = lex_once(f(n))
            st.evaluations += 1
            if t > 0.5:
                blown = (n, t)
                break
            n = n * 2 if t < 0.002 else n + 2
        if blown and _lex_failure(st, case, f(4), "family %s: a %d-character input takes %.2f s to lex" % (name, len(f(blown[0])), blown[1]), "lexer-slow", [f(blown[0])], "slow"):
            continue
        series = []
        for n in (64, 128, 256, 512):
            series.append((n, lex_time(f(n))))
            st.evaluations += 1
            if series[-1][1] > 5.0:
                break
        t300 = lex_time(f(300)[:300])
        st.evaluations += 1
        if t300 > 1.0 and _lex_failure(st, case, f(8), "a 300-character input of family %s takes %.2f s to lex" % (name, t300), "lexer-slow", [f(300)[:300]], "slow"):
            continue
        bad = 0
        for (n1, t1), (n2, t2) in zip(series, series[1:]):
            if t2 > 0.02 and t2 > 3.5 * t1:
                bad += 1
            else:
                bad = 0
            if bad >= 2:
                _lex_failure(st, case, f(8), "family %s: lexing time %s grows > 3.5x per doubling twice in a row" % (name, [(n, round(t, 4)) for n, t in series]), "lexer-superlinear", [f(n) for n, _ in series], "superlinear")
                break
        # a quadratic regex with a small constant needs thousands of characters
        # before it rises above the timing floor (1 ms at 512 characters, 1 s at
        # 16 000): the same test on long inputs, up to the first lexical error (a
        # lexer that is told to go on after errors re-scans the rest of an
        # unterminated string at every quote - parse() never does that)
        if not any(fl["case"] == case for fl in st.failures):
            long_series = []
            for n in (2000, 4000, 8000, 16000):
                long_series.append((n, lex_time(f(n), True)))
                st.evaluations += 1
                if long_series[-1][1] > 5.0:
                    break
            bad = 0
            for (n1, t1), (n2, t2) in zip(long_series, long_series[1:]):
                bad = bad + 1 if (t2 > 0.02 and t2 > 3.0 * t1) else 0
                if bad >= 2:
                    again = [(n, lex_time(f(n), True)) for n, _ in long_series]
                    if all(b[1] > 0.02 and b[1] > 3.0 * a[1] for a, b in zip(again[-3:], again[-2:])):
                        _lex_failure(st, case, f(8), "family %s: lexing time %s (re-measured %s) grows > 3x per doubling twice in a row on long inputs" % (name, [(n, round(t, 4)) for n, t in long_series], [(n, round(t, 4)) for n, t in again]), "lexer-superlinear", [f(n) for n, _ in long_series], "superlinear", True)
                    else:
                        st.classes["timing_suspicions_not_confirmed"] += 1
                    break
        st.nontrivial += 1
        if name in ("octal_escapes_in_char", "unterminated_string"):
            st.sample(dict(family=name, text=f(6), times=[(n, round(t, 5)) for n, t in series]))
    return st


def run(ctx):
    nparts = 6
    jobs = [(kind, p, nparts, ctx.quick) for kind in ("E", "S", "D") for p in range(nparts)] + [("T", p, 8, ctx.quick) for p in range(8)]
    ctx.map(nest_shard, jobs)
    names = sorted(REPEAT)
    ctx.map(repeat_shard, [(names[i::6], ctx.quick) for i in range(6)])
    ctx.map(triple_shard, [(s, ctx.pick(8, 300), ctx.quick) for s in ctx.shard_seeds(16)])
    ctx.map(big_shard, [(n, k * ctx.pick(1, 2)) for n, k in (list(BIG.items())[:9] if ctx.quick else BIG.items())])
    lnames = sorted(LEX_FAMILIES)
    # timing is measured with few processes at a time to keep the machine quiet
    ctx.map(lex_shard, [lnames[i::4] for i in range(4)])
    ctx.exhaustive = True
    ctx.extra["exhaustive_bounds"] = "all single units and ordered pairs of %d expression, %d statement and %d declarator units; %d repetition families; %d lexer families" % (len(E), len(S), len(D), len(REPEAT), len(LEX_FAMILIES))


def replay(subcheck, case):
    st = Stats()
    if case[0] == "nest":
        _, kind, us, ks = case
        us = tuple(tuple(u) for u in us)
        in_big_thread(check_family, "replay", lambda k: build(kind, us, k), tuple(ks), st, case)
    elif case[0] == "repeat":
        in_big_thread(check_family, "replay", REPEAT[case[1]], tuple(case[2]), st, case, steps_lines)
    elif case[0] == "big":
        r = big_shard((case[1], case[2] if len(case) > 2 else BIG.get(case[1], 1600)))
        if r.failures:
            raise CheckFailure(**r.failures[0])
    elif case[0] == "lex":
        r = lex_shard([case[1]])
        if r.failures:
            raise CheckFailure(**r.failures[0])
