"""C19 - every fake libc header preprocesses and parses via parse_file."""
import os
import shutil
import subprocess
import tempfile

from pycparser import c_ast, c_parser, parse_file

from ..astdump import dump, first_difference
from ..runner import CheckFailure, Stats, fail, hyp_search

ID = "C19"
RULE = (
    "Exhaustive: every header file found under utils/fake_libc_include at run time x -std= {c99, c11, gnu99, gnu11} with "
    "cpp_args as a list, plus cpp_args as a single string (-I<dir>, where <dir> is a scratch symlink whose name contains a "
    "blank and '='), each through parse_file(use_cpp=True) on a generated one-include file. Oracle: no exception; the result "
    "equals preprocessing by hand (subprocess cpp) and parsing with CParser (dump incl. coordinates); every name typedef'ed in "
    "the result parses as a type in generated trailing declarations 'T v; T *f(T); int s = sizeof(T);'. Hypothesis: random "
    "subsets (2-15) and orders of headers, same oracle; including files that make cpp print warnings while it succeeds; 6 (quick) / 60 "
    "(thorough) rounds of 8 parse_file calls overlapping in time from 8 threads, each compared with the same call made alone. Non-trivial: single-header runs defining >= 1 typedef (distinct by "
    "construction); subsets with >= 3 headers from >= 2 directories (distinct by hash)."
    " List forms: ['-std=..', '-nostdinc', '-I<dir>'], the same with '-I' and '<dir>' as separate elements, and a mixed list (split -I with a trailing separator, -D/-U pair, a non-existent extra -I directory). "
)
ASSUMPTIONS = ["the system 'cpp' (gcc 12) is the preprocessor; -nostdinc is passed in list form so that only the fake headers are seen"]


def root():
    return os.path.join(os.environ.get("PYCPARSER_REPO", "/repo"), "utils", "fake_libc_include")


def headers():
    r = root()
    return sorted(os.path.relpath(os.path.join(d, f), r) for d, _, fs in os.walk(r) for f in fs if f.endswith(".h"))


def typedef_names(ast):
    return list(dict.fromkeys(e.name for e in ast.ext if isinstance(e, c_ast.Typedef)))


NOISY_HEAD = "#define NULL 0\n#define EOF (-2)\n#define BUFSIZ 17\n"
NOISY_TAIL = "#warning the user's own warning\n"


def check_includes(hdrs, std, form, workdir, case, deep=True, noisy=False):
    """form: 'list' | 'split' | 'mixed' | 'str'.  noisy: the including file makes cpp print
    warnings (macros the fake headers define again, a #warning directive) while
    it still succeeds - diagnostics are not part of the preprocessed text."""
    r = root()
    f1 = os.path.join(workdir, "a.c")
    with open(f1, "w") as f:
        f.write((NOISY_HEAD if noisy else "") + "".join("#include <%s>\n" % h for h in hdrs) + (NOISY_TAIL if noisy else ""))
    label = "%s std=%s form=%s" % (",".join(hdrs), std, form)
    if form == "list":
        args = ["-std=" + std, "-nostdinc", "-I" + r]
    elif form == "split":
        # the option and its operand as two list elements, as cpp accepts them
        args = ["-std=" + std, "-nostdinc", "-I", r]
    elif form == "mixed":
        args = ["-I", r + os.sep, "-DPYCP_X=1", "-std=" + std, "-nostdinc", "-I" + os.path.join(workdir, "no-such-dir"), "-U", "PYCP_X"]
    else:
        link = os.path.join(workdir, "inc dir=x")
        if not os.path.exists(link):
            os.symlink(r, link)
        args = "-I" + link
    snapshot = list(args) if isinstance(args, list) else args
    try:
        ast = parse_file(f1, use_cpp=True, cpp_args=args)
    except Exception as e:  # noqa: BLE001
        fail("parse_file", case, label, "parse_file raised %s: %s" % (type(e).__name__, str(e)[:300]), "exc:" + type(e).__name__)
    if not isinstance(ast, c_ast.FileAST):
        fail("parse_file", case, label, "parse_file returned %r" % type(ast).__name__, "notfileast")
    if args != snapshot:
        fail("parse_file", case, label, "parse_file modified the caller's cpp_args: %r -> %r" % (snapshot, args), "cpp-args-modified")
    if isinstance(args, list) and deep:
        # the same list object given again (args built once, used for several files)
        try:
            again = parse_file(f1, use_cpp=True, cpp_args=args)
        except Exception as e:  # noqa: BLE001
            fail("parse_file", case, label, "second parse_file call with the same cpp_args list raised %s: %s" % (type(e).__name__, str(e)[:200]), "exc-second-call:" + type(e).__name__)
        if dump(again, True) != dump(ast, True):
            fail("parse_file", case, label, "second parse_file call with the same cpp_args list gives a different AST", "second-call-differs")
    names = typedef_names(ast)
    if not deep:
        return names
    argv = ["cpp"] + (list(snapshot) if isinstance(snapshot, list) else [snapshot]) + [f1]
    txt = subprocess.check_output(argv, universal_newlines=True, stderr=subprocess.DEVNULL)
    hand = c_parser.CParser().parse(txt, f1)
    d1, d2 = dump(ast, True), dump(hand, True)
    if d1 != d2:
        fail("by-hand", case, label, "parse_file result differs from cpp + CParser.parse at %s" % (first_difference(d1, d2),), "hand-differs")
    # the same text without linemarkers through parse_file(use_cpp=False): here the
    # file name argument is the only source of Coord.file
    f3 = os.path.join(workdir, "c.i")
    plain = "".join(l for l in txt.splitlines(True) if not l.lstrip().startswith("#"))
    with open(f3, "w") as f:
        f.write(plain)
    d3 = dump(parse_file(f3), True)
    d4 = dump(c_parser.CParser().parse(plain, f3), True)
    if d3 != d4:
        fail("by-hand", case, label, "parse_file(use_cpp=False) differs from CParser.parse(text, filename) at %s" % (first_difference(d3, d4),), "hand-differs-nocpp")
    if names:
        body = "".join("%s v_%d; %s *f_%d(%s); int s_%d = sizeof(%s);\n" % (n, i, n, i, n, i, n) for i, n in enumerate(names))
        f2 = os.path.join(workdir, "b.c")
        with open(f2, "w") as f:
            f.write((NOISY_HEAD if noisy else "") + "".join("#include <%s>\n" % h for h in hdrs) + (NOISY_TAIL if noisy else "") + body)
        try:
            ast3 = parse_file(f2, use_cpp=True, cpp_args=args)
        except Exception as e:  # noqa: BLE001
            fail("typedef-use", case, label, "declarations using the typedef names do not parse: %s: %s" % (type(e).__name__, str(e)[:300]), "use-exc:" + type(e).__name__)
        tail = ast3.ext[-3 * len(names) :]
        for i, n in enumerate(names):
            t = tail[3 * i].type
            if not (isinstance(t, c_ast.TypeDecl) and isinstance(t.type, c_ast.IdentifierType) and t.type.names == [n]):
                fail("typedef-use", case, label, "typedef name %r is not read as a type" % n, "not-a-type")
            sz = tail[3 * i + 2].init
            if not (isinstance(sz, c_ast.UnaryOp) and isinstance(sz.expr, c_ast.Typename)):
                fail("typedef-use", case, label, "sizeof(%s) is not read as a type operand" % n, "not-a-type")
    return names


def header_shard(arg):
    h, quick = arg
    st = Stats()
    per_config = {}
    d = tempfile.mkdtemp(prefix="c19_")
    try:
        k = sum(map(ord, h))
        for std, form in [("c99", "list"), ("c11", "list"), ("gnu99", "list"), ("gnu11", "list"), ("default", "str"), (["c99", "c11", "gnu99", "gnu11"][k % 4], ["split", "mixed"][(k // 4) % 2])]:
            st.evaluations += 1
            # quick tier: the by-hand comparison and the typedef-use check run
            # for -std=c11 and for the string form; the other dialects only
            # have to preprocess and parse
            deep = (not quick) or (std, form) in (("c11", "list"), ("default", "str"))
            try:
                names = check_includes([h], std, form, d, ("includes", [h], std, form), deep=deep)
                per_config[(std, form)] = set(names)
                if deep and (not quick or sum(map(ord, h)) % 6 == 0):
                    st.evaluations += 1
                    check_includes([h], std, form, d, ("includes", [h], std, form, True), deep=True, noisy=True)
                    st.classes["includes_with_cpp_warnings"] += 1
                if names:
                    st.nontrivial += 1
                st.notes["typedef_uses_checked"] = st.notes.get("typedef_uses_checked", 0) + 3 * len(names)
            except CheckFailure as f:
                st.failures.append(f.failure)
        # the type names a header defines must not depend on the dialect or on the
        # argument form ("every type name the fake headers define is usable as a
        # type" under each of them)
        if len(per_config) >= 2:
            union = set().union(*per_config.values())
            for cfgk, names in sorted(per_config.items()):
                missing = sorted(union - names)
                if missing:
                    st.failures.append(dict(subcheck="typedef-use", case=("names", [h], list(cfgk)), text="#include <%s>  -std=%s form=%s" % (h, cfgk[0], cfgk[1]),
                                            detail="type names defined by the header under another dialect/argument form are missing here: %s%s" % (missing[:8], " ..." if len(missing) > 8 else ""), sig="names-depend-on-dialect"))  # fmt: skip
                    break
    finally:
        shutil.rmtree(d, ignore_errors=True)
    if h in ("stdio.h", "X11/Xlib.h", "sys/socket.h"):
        st.sample("#include <%s>  x {c99,c11,gnu99,gnu11} list form + string form" % h)
    return st


def subset_shard(arg):
    seed, n = arg
    st = Stats()
    hs = headers()
    d = tempfile.mkdtemp(prefix="c19s_")

    def body(c):
        k = c.int(2, 15)
        chosen = []
        pool = list(hs)
        for _ in range(k):
            chosen.append(pool.pop(c.below(len(pool))))
        std = c.choice(["c99", "c11", "gnu99", "gnu11"])
        form = c.weighted([(5, "list"), (2, "split"), (1, "mixed"), (2, "str")])
        st.evaluations += 1
        noisy = c.chance(0.3)
        check_includes(chosen, std if form != "str" else "default", form, d, ("includes", chosen, std, form, noisy), noisy=noisy)
        if len(chosen) >= 3 and len({os.path.dirname(h) for h in chosen}) >= 2:
            st.nt(tuple(chosen))
        if st.evaluations % 13 == 1:
            st.sample("#include " + " ".join("<%s>" % h for h in chosen) + " -std=" + std + " " + form)

    try:
        hyp_search(body, seed, n, st)
    finally:
        shutil.rmtree(d, ignore_errors=True)
    return st


def concurrent_shard(arg):
    """parse_file calls that overlap in time (a thread pool hiding cpp latency):
    each call must return what it returns when it runs alone."""
    import sys
    import threading

    round_no, nthreads = arg
    st = Stats()
    hs = headers()
    d = tempfile.mkdtemp(prefix="c19t_")
    try:
        jobs = []
        for i in range(nthreads):
            hdrs = [hs[(round_no * 7 + i * 13 + j * 5) % len(hs)] for j in range(3)]
            f1 = os.path.join(d, "t%d.c" % i)
            with open(f1, "w") as f:
                f.write("".join("#include <%s>\n" % h for h in hdrs) + "size_t n%d; FILE *fp%d; int f%d(va_list a) { return sizeof(wchar_t); }\n" % (i, i, i))
            args = ["-std=" + ["c99", "c11", "gnu99", "gnu11"][i % 4], "-nostdinc", "-I" + root()] if i % 3 else "-I" + root()
            jobs.append((f1, args, hdrs))
        alone = []
        for f1, args, hdrs in jobs:
            try:
                alone.append(("ok", dump(parse_file(f1, use_cpp=True, cpp_args=list(args) if isinstance(args, list) else args), True)))
            except Exception as e:  # noqa: BLE001
                alone.append(("err", type(e).__name__, str(e)[:200]))
        res = [None] * nthreads
        bar = threading.Barrier(nthreads)

        def work(i):
            f1, args, hdrs = jobs[i]
            bar.wait()
            try:
                res[i] = ("ok", dump(parse_file(f1, use_cpp=True, cpp_args=list(args) if isinstance(args, list) else args), True))
            except Exception as e:  # noqa: BLE001
                res[i] = ("err", type(e).__name__, str(e)[:200])

        old = sys.getswitchinterval()
        sys.setswitchinterval(1e-5)
        try:
            ths = [threading.Thread(target=work, args=(i,)) for i in range(nthreads)]
            for t in ths:
                t.start()
            for t in ths:
                t.join()
        finally:
            sys.setswitchinterval(old)
        st.evaluations += nthreads
        st.classes["overlapping_parse_file_calls"] += nthreads
        for i in range(nthreads):
            if res[i] != alone[i]:
                st.failures.append(dict(subcheck="parse_file", case=("concurrent", round_no, nthreads), text="#include " + " ".join(jobs[i][2]), detail="parse_file call %d of %d overlapping calls: %s, alone: %s" % (i, nthreads, res[i][:3] if res[i][0] != "ok" else "ok (different AST)", alone[i][:3] if alone[i][0] != "ok" else "ok"), sig="overlap-differs"))
                break
        st.nontrivial += 1
    finally:
        shutil.rmtree(d, ignore_errors=True)
    return st


def run(ctx):
    hs = headers()
    ctx.map(header_shard, [(h, ctx.quick) for h in hs], chunksize=2)
    ctx.map(subset_shard, [(s, ctx.pick(6, 200)) for s in ctx.shard_seeds(16)])
    ctx.map(concurrent_shard, [(ctx.seed * 11 + r, 8) for r in range(ctx.pick(6, 60))])
    ctx.exhaustive = True
    ctx.extra["exhaustive_bounds"] = "%d header files x {c99, c11, gnu99, gnu11} (list form) + string form + one of the split/mixed list forms" % len(hs)
    ctx.extra["headers"] = len(hs)


def replay(subcheck, case):
    if case[0] == "concurrent":
        r = concurrent_shard((case[1], case[2]))
        if r.failures:
            raise CheckFailure(**r.failures[0])
        return
    if case[0] == "names":
        r = header_shard((case[1][0], True))
        bad = [f for f in r.failures if f["sig"] == "names-depend-on-dialect"]
        if bad:
            raise CheckFailure(**bad[0])
        return
    _, hdrs, std, form = case[:4]
    d = tempfile.mkdtemp(prefix="c19r_")
    try:
        check_includes(list(hdrs), std, form, d, case, noisy=bool(case[4]) if len(case) > 4 else False)
    finally:
        shutil.rmtree(d, ignore_errors=True)
