"""C01 - every valid C99 / supported-C11 translation unit is accepted."""
import os
import shutil
import tempfile

from .. import cmodel as M
from .. import gcc, gen, semgen
from ..corners import corner_blocks, prelude
from ..oracle import parse_outcome
from ..runner import CheckFailure, HarnessError, Stats, fail, hyp_search
from ..unitcheck import unit_text

ID = "C01"
RULE = (
    "Tier 1 (hard oracle): Hypothesis-driven typed builder (vlib/semgen.py: all statement kinds, all operators, structs/unions/"
    "enums/bit-fields incl. zero-width, function pointers, designated initializers, compound literals, VLAs incl. [*] and "
    "[static n], qualifiers, storage classes, K&R definitions, every integer/floating suffix; with C11: _Atomic, "
    "_Alignas/_Alignof, _Static_assert, _Noreturn, _Thread_local, anonymous members, u8/u/U literals); only programs that "
    "gcc -fsyntax-only -std=c99/-std=c11 -pedantic-errors accepts are used and each must parse. Tier 2 (wide syntax): "
    "translation units derived from C99 Annex A (+ documented C11 productions) under the typedef-name rule by the "
    "syntactic generator of C02-C05; if pycparser rejects one, gcc is consulted: a syntax-family diagnostic means the "
    "generator is wrong (harness error), otherwise it is a violation; 2 % of accepted units are sent to gcc to measure "
    "generator soundness. Exhaustive: every expression tree with 2 operator nodes (54 kinds) and with 3 over 21 representative kinds, contexts rotated, must be accepted. Corner catalogue: 131 valid snippets, each checked against gcc at start. Non-trivial: the program "
    "uses >= 3 distinct grammar features beyond plain declarations; distinct by hash of the token text."
)
ASSUMPTIONS = [
    "gcc 12 -pedantic-errors is the validity oracle for tier 1 and the corner catalogue; for tier 2 it can only turn an alarm into a harness error",
    "implicit int (not C99) is not generated; declarations that declare nothing are not generated",
]
QUARANTINE_T2 = ("ext.implicit_int", "lit.u8_char_constant", "init.empty_braces")  # not C99/C11: outside this property


def t1_shard(arg):
    seed, n = arg
    st = Stats()
    d = tempfile.mkdtemp(prefix="c01_")
    batch = []

    def flush():
        if not batch:
            return
        for std in ("c99", "c11"):
            files = [p for p, s, _t, _g in batch if s == std]
            if not files:
                continue
            res = gcc.syntax_check(files, std)
            for p, s, text, g in batch:
                if s != std:
                    continue
                st.evaluations += 1
                if res[p]:
                    st.classes["generator_miss_gcc_rejects"] += 1
                    if len(st.samples) < 2:
                        st.notes.setdefault("generator_miss_example", res[p][0][:120])
                    continue
                st.classes["gcc_valid_" + std] += 1
                out = parse_outcome(text, "f.c", ("f.c",))
                if out[0] != "ast":
                    st.failures.append(dict(subcheck="tier1", case=("text", text, std), text=text, detail="gcc -std=%s -pedantic-errors accepts, pycparser: %r" % (std, out[1:]), sig="rejected-gcc-valid"))
                    continue
                st.nt(text)
                for f, k in g.features.items():
                    st.classes["feature." + f] += k
        del batch[:]

    def body(c):
        text, std, g = semgen.program(c, quarantine=())
        if c.chance(0.15):
            # all of C's white-space characters (C99 6.4p3): form feed and vertical
            # tab in place of some blanks, outside directive lines (gcc rejects them there)
            lines = []
            for ln in text.split("\n"):
                if not ln.lstrip().startswith("#") and " " in ln and c.chance(0.2):
                    i = [k for k, ch in enumerate(ln) if ch == " "]
                    k = c.choice(i)
                    ln = ln[:k] + c.choice(["\f", "\v", " \f ", "\v\f"]) + ln[k + 1 :]
                lines.append(ln)
            text = "\n".join(lines)
            st.classes["programs_with_ff_or_vt"] += 1
        p = os.path.join(d, "p%d.c" % len(batch))
        with open(p, "w") as f:
            f.write(text)
        batch.append((p, std, text, g))
        if len(batch) >= 8:
            flush()
        if st.evaluations % 61 == 1 and len(st.samples) < 3:
            st.sample(text[len(semgen.PRE99) :][:400])

    try:
        hyp_search(body, seed, n, st)
        flush()
    finally:
        shutil.rmtree(d, ignore_errors=True)
    return st


def features_of(g):
    return sum(1 for f, k in g.features.items() if k)


def t2_shard(arg):
    seed, n = arg
    st = Stats()
    d = tempfile.mkdtemp(prefix="c01b_")

    def body(c):
        g = gen.G(c, quarantine=QUARANTINE_T2)
        tu = M.freshen(gen.gen_unit(g))
        mode = c.choice(["min", "min", "red", "full"])
        pm = c.int(0, 0xFFFF) if mode == "red" else 0
        src = unit_text(tu, mode, M.paren_from_mask(pm))
        out = parse_outcome(src, "f.c", ("f.c",))
        st.evaluations += 1
        case = ("unit", tu, mode, pm)
        if out[0] != "ast":
            errs, syn = gcc.syntax_errors_of(src.replace("offsetof", "__builtin_offsetof"), "c11", d)
            if syn:
                raise HarnessError("tier-2 generator produced text gcc finds syntactically invalid: %s\n%s" % (syn[:2], src[:800]))
            fail("tier2", case, src, "unit derived from the C grammar rejected: %r (gcc reports no syntax error; %d other diagnostics)" % (out[1:], len(errs)), "rejected-grammar-valid")
        st.classes["accepted"] += 1
        if M.count_nodes(tu) >= 12:
            st.nt(src)
        if c.chance(0.02):
            errs, syn = gcc.syntax_errors_of(src.replace("offsetof", "__builtin_offsetof"), "c11", d)
            st.classes["gcc_soundness_samples"] += 1
            if syn:
                raise HarnessError("tier-2 generator soundness: gcc syntax diagnostics %s for\n%s" % (syn[:2], src[:800]))
        for f, k in g.features.items():
            st.classes["feature." + f] += k
        if st.evaluations % 499 == 1:
            st.sample(src.split("\n", 1)[1][:300])

    try:
        hyp_search(body, seed, n, st)
    finally:
        shutil.rmtree(d, ignore_errors=True)
    return st


def enum_expr_shard(arg):
    """acceptance of every small expression tree of the C02 enumeration (valid C
    by construction) in rotating contexts: catches rejections that need a
    specific operator combination (sizeof + compound literal + postfix ...)"""
    import itertools

    from ..unitcheck import EXPR_CONTEXTS
    from . import c02

    kind_name, n = arg
    st = Stats()
    name, ar, mk = c02.first_kind_lookup(kind_name)
    kinds = c02.KINDS if n <= 2 else [k for k in c02.KINDS if k[0] in c02.REDUCED]
    idx = 0
    for split in c02._splits(n - 1, ar):
        for kids in itertools.product(*[list(c02.trees(k, kinds)) for k in split]):
            e = mk(*kids)
            ci = idx % len(EXPR_CONTEXTS)
            idx += 1
            tu = EXPR_CONTEXTS[ci][1](e)
            src = unit_text(tu, "min")
            st.evaluations += 1
            out = parse_outcome(src, "f.c", ("f.c",))
            if out[0] != "ast":
                st.failures.append(dict(subcheck="tier2", case=("unit", tu, "min", 0), text=src, detail="expression derived from the C grammar rejected: %r" % (out[1:],), sig="rejected-grammar-valid"))
                if len(st.failures) > 20:
                    return st
            else:
                st.nontrivial += 1
    return st


def corner_shard(_):
    st = Stats()
    d = tempfile.mkdtemp(prefix="c01c_")
    try:
        blocks = corner_blocks()
        files = []
        for i, b in enumerate(blocks):
            p = os.path.join(d, "c%d.c" % i)
            with open(p, "w") as f:
                f.write((prelude() + "\n" + b + "\n").replace("offsetof", "__builtin_offsetof"))
            files.append(p)
        r99 = gcc.syntax_check(files, "c99")
        bad99 = [p for p in files if r99[p]]
        r11 = gcc.syntax_check(bad99, "c11") if bad99 else {}
        for i, (b, p) in enumerate(zip(blocks, files)):
            st.evaluations += 1
            if r99[p] and r11.get(p):
                raise HarnessError("corner catalogue block %d is rejected by gcc: %s" % (i, r11[p][:1]))
            text = prelude() + "\n" + b + "\n"
            out = parse_outcome(text, "f.c", ("f.c",))
            if out[0] != "ast":
                st.failures.append(dict(subcheck="corner", case=("text", text, "c11" if r99[p] else "c99"), text=text, detail="corner catalogue block %d (gcc-valid) rejected: %r" % (i, out[1:]), sig="rejected-gcc-valid"))
            else:
                st.nontrivial += 1
        st.classes["corner_blocks"] = len(blocks)
    finally:
        shutil.rmtree(d, ignore_errors=True)
    return st


def run(ctx):
    if not gcc.have_gcc():
        raise HarnessError("gcc is required for C01")
    ctx.map(corner_shard, [0])
    from . import c02

    ctx.map(enum_expr_shard, [(k[0], 2) for k in c02.KINDS] + [(k[0], 3) for k in c02.KINDS if k[0] in c02.REDUCED])
    ctx.map(t1_shard, [(s, ctx.pick(25, 500)) for s in ctx.shard_seeds(16)])
    ctx.map(t2_shard, [(s, ctx.pick(400, 10000)) for s in ctx.shard_seeds(16, 7)])


def replay(subcheck, case):
    if case[0] == "text":
        _, text, std = case
        d = tempfile.mkdtemp(prefix="c01r_")
        try:
            errs, _syn = gcc.syntax_errors_of(text.replace("offsetof", "__builtin_offsetof"), std, d)
        finally:
            shutil.rmtree(d, ignore_errors=True)
        if errs:
            return  # not gcc-valid: no claim
        out = parse_outcome(text, "f.c", ("f.c",))
        if out[0] != "ast":
            fail(subcheck, case, text, "gcc -std=%s -pedantic-errors accepts, pycparser: %r" % (std, out[1:]), "rejected-gcc-valid")
    else:
        _, tu, mode, pm = case
        src = unit_text(M.freshen(tu), mode, M.paren_from_mask(pm))
        out = parse_outcome(src, "f.c", ("f.c",))
        if out[0] != "ast":
            fail(subcheck, case, src, "rejected: %r" % (out[1:],), "rejected-grammar-valid")
