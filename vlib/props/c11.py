"""C11 - coordinates point at the real source location of every construct and error."""
import re

from pycparser import c_ast

from .. import cmodel as M
from .. import gen
from ..layout import lay_out
from ..oracle import parse_outcome
from ..runner import CheckFailure, Stats, fail, hyp_search

ID = "C11"
RULE = (
    "Hypothesis-generated translation units are rendered by the model renderer, which records for every model node its token "
    "range and for identifiers/constants/declared names the exact spelling token, then laid out with random blanks, tabs, "
    "newlines and linemarkers of 8 forms that change line AND file between arbitrary tokens; the layout records the "
    "(file, line, column) where every token really starts. The returned AST is walked in lockstep with the model's expected AST: "
    "every coordinate must be the start of a real token, lie inside the token range of the construct the node represents "
    "(declarator parts: inside their declaration), and for ID, Constant, declared names (TypeDecl.declname, Decl, Typedef, "
    "Enumerator, Label, member and designator names) be exactly the spelling token; Decl/Typedef/FuncDef, statements, ID, "
    "Constant and operator nodes must carry a coordinate. Error locations: every injection of @, `, \\ and comment openers "
    "at every token boundary (<= 80 tokens, sampled beyond) must be reported at exactly file:line:col of the injected "
    "character; every single-token deletion that makes the program invalid must be reported at the start of a real token of "
    "the mutated text (or as 'file: ' at end of input). Non-trivial: a file-changing linemarker lies strictly inside a "
    "construct whose coordinate is checked; distinct by hash of the text."
    " Also: an illegal character at every offset of a line directive behind the first digit of its line number (outside the quoted file name; 12 directive forms x 4 number/name pairs x 6 contexts) must be reported at exactly that column with the file and line in force on the directive's own line. "
)
ASSUMPTIONS = [
    "the AST shape is the one C02/C03/C05 establish; nodes for which the model has no token range are only required to name a real token",
    "block-scope _Static_assert is not generated (finding F19 changes the shape)",
]
QUARANTINE = ("stmt.static_assert_in_block",)

MUST_CARRY = {
    "Decl", "Typedef", "FuncDef", "ID", "Constant", "BinaryOp", "UnaryOp", "Assignment", "TernaryOp", "Cast", "ArrayRef", "StructRef",
    "FuncCall", "ExprList", "Compound", "If", "While", "DoWhile", "For", "Switch", "Case", "Default", "Label", "Goto", "Break",
    "Continue", "Return", "EmptyStatement", "Pragma", "StaticAssert",
}  # fmt: skip  (declarations, statements, identifiers, constants, operators - the classes the property names)


class T:
    __slots__ = ("s", "line")

    def __init__(self, s, line=False):
        self.s = s
        self.line = line


def _range_of(key, ranges, off):
    if isinstance(key, int):
        r = ranges.get(key)
    else:
        r = None
        for x in key:
            if isinstance(x, int) and x in ranges:
                r = ranges[x]
                break
    if r is None:
        return None
    return (r[0] + off, r[1] + off)


class Walker:
    def __init__(self, rend, laid, off, src, case):
        self.rend = rend
        self.laid = laid
        self.off = off
        self.src = src
        self.case = case
        self.pos2tok = {}
        # linemarkers may re-base two tokens to the same (file, line, column):
        # a coordinate is fine if ANY token at that position satisfies the rules
        for i, p in enumerate(laid.pos):
            self.pos2tok.setdefault(p, []).append(i)
        for p, owners in getattr(laid, "extra", {}).items():
            self.pos2tok.setdefault(p, []).extend(owners)
        self.marker_toks = set(laid.inside_markers)
        self.nontrivial = False
        self.nchecked = 0

    def check_node(self, exp, node):
        cls = type(node).__name__
        ann = None
        for x in exp[1:]:
            if isinstance(x, tuple) and x and x[0] == "@":
                ann = x
        c = node.coord
        if c is None:
            if cls in MUST_CARRY and ann is not None:
                fail("coord", self.case, self.src, "%s node without coordinate" % cls, "missing-coord:" + cls)
            return
        key = (c.file, c.line, c.column)
        ts = self.pos2tok.get(key)
        if not ts:
            fail("coord", self.case, self.src, "%s node has coordinate %s which is not the start of any token" % (cls, c), "not-a-token:" + cls)
        self.nchecked += 1
        if ann is None:
            return
        _, k, exact = ann
        rng = _range_of(k, self.rend.ranges, self.off)
        t = ts[0]
        if rng is not None:
            inside = [x for x in ts if rng[0] <= x < rng[1]]
            if not inside:
                fail("coord", self.case, self.src, "%s node at %s is token #%d (%r), outside its construct's tokens #%d..#%d (%r ... %r)" % (cls, c, t, self.tok(t), rng[0], rng[1] - 1, self.tok(rng[0]), self.tok(rng[1] - 1)), "outside-construct:" + cls)
            if any(rng[0] < m < rng[1] for m in self.marker_toks):
                self.nontrivial = True
        if exact is not None:
            want = self.rend.nametok.get(exact)
            if want is not None and (want + self.off) not in ts:
                fail("coord", self.case, self.src, "%s node at %s is token #%d (%r) but its spelling token is #%d (%r at %s)" % (cls, c, t, self.tok(t), want + self.off, self.tok(want + self.off), self.laid.pos[want + self.off]), "not-spelling-token:" + cls)

    def tok(self, i):
        return self.toks[i].s if 0 <= i < len(self.toks) else "?"

    def walk(self, exp, node):
        if isinstance(exp, tuple) and exp and isinstance(exp[0], str) and isinstance(node, c_ast.Node):
            if exp[0] != type(node).__name__:
                return  # shape is not C11's business
            self.check_node(exp, node)
            for x in exp[1:]:
                if not (isinstance(x, tuple) and len(x) == 2) or x[0] == "@":
                    continue
                slot, val = x
                if not hasattr(node, slot):
                    continue
                self.walk(val, getattr(node, slot))
        elif isinstance(exp, list) and isinstance(node, list):
            for a, b in zip(exp, node):
                self.walk(a, b)


def build(c, mode=None):
    g = gen.G(c, quarantine=QUARANTINE, max_nodes=160)
    tu = M.freshen(gen.gen_unit(g))
    return tu, g


def check_coords(tu, c, st, case):
    rend = M.Renderer("min")
    rend.unit(tu)
    pre = [T(x) for x in gen.PRELUDE.split()]
    toks = pre + [T(t.s, t.line) for t in rend.toks]
    laid = lay_out(toks, c, style="random", marker_p=0.1)
    files = ("f.c", "g.h", "dir/h.h", "a b.c", "")
    out = parse_outcome(laid.text, "f.c", files)
    st.evaluations += 1
    if out[0] != "ast":
        st.classes["rejected"] += 1
        return None
    exp = M.Expect(ann=True).unit(tu)
    w = Walker(rend, laid, len(pre), laid.text, case + (laid.text,))
    w.toks = toks
    ext = out[1].ext[gen.PRELUDE_NEXT :]
    w.walk(exp[1][1], ext)
    st.classes["coords_checked"] += w.nchecked
    st.classes["linemarkers"] += laid.nmarkers
    st.classes["file_changes"] += laid.nfilechanges
    if w.nontrivial and laid.nfilechanges:
        st.nt(laid.text)
    return laid, toks


INJECT_EXACT = ["@", "`", "\\", "/* c */", "// c"]
_LOC = re.compile(r"^(.*?):(\d+):(\d+): ")


def check_errors(toks, c, st, case):
    n = len(toks)
    positions = list(range(n + 1)) if n <= 80 else sorted({c.int(0, n) for _ in range(40)})
    files = ("f.c", "g.h", "dir/h.h", "a b.c", "")
    for i in positions:
        inj = INJECT_EXACT[(i + len(toks)) % len(INJECT_EXACT)] if n > 25 else None
        for s in [inj] if inj else INJECT_EXACT:
            m = toks[:i] + [T(s)] + ([T("\n#pragma endofcomment", True)] if s.startswith("//") and False else []) + toks[i:]
            if s.startswith("//"):
                # keep the rest of the program off the comment's line
                m = toks[:i] + [T(s)] + toks[i:]
            laid = lay_out(m, c, style="random", marker_p=0.05, adjacency=False)
            out = parse_outcome(laid.text, "f.c", files)
            st.evaluations += 1
            want = laid.pos[i]
            if out[0] != "perr":
                fail("error-location", case + (laid.text,), laid.text, "illegal text %r at %s:%d:%d not rejected with ParseError (%s)" % ((s,) + want + (out[0],)), "illegal-not-rejected")
            mm = _LOC.match(out[1])
            got = (mm.group(1), int(mm.group(2)), int(mm.group(3))) if mm else None
            if got != want:
                fail("error-location", case + (laid.text,), laid.text, "illegal text %r injected at %s:%d:%d reported as %r" % ((s,) + want + (out[1][:80],)), "illegal-char-location")
            st.classes["illegal_injections"] += 1
    # deletions: the error location must be a real token of the mutated text
    dels = list(range(n)) if n <= 60 else sorted({c.int(0, n - 1) for _ in range(30)})
    for i in dels:
        m = toks[:i] + toks[i + 1 :]
        if not m:
            continue
        laid = lay_out(m, c, style="random", marker_p=0.05)
        out = parse_outcome(laid.text, "f.c", files)
        st.evaluations += 1
        if out[0] != "perr":
            continue
        mm = _LOC.match(out[1])
        if mm:
            got = (mm.group(1), int(mm.group(2)), int(mm.group(3)))
            if got not in set(laid.pos):
                fail("error-location", case + (laid.text,), laid.text, "ParseError location %s:%d:%d is not the start of any token of the input (message %r)" % (got + (out[1][:80],)), "error-not-a-token")
            st.classes["deletion_errors_located"] += 1
        else:
            # 'file: message' form: only legitimate when no token can be blamed
            st.classes["deletion_errors_file_only"] += 1


DIRECTIVE_FORMS = ['# %d "%s"', '#line %d "%s"', '# %d "%s" 1', '# %d "%s" 2 3', '  #  %d "%s"', "# %d", "#line %d", "#\tline %d", '#  line\t%d  "%s"  ', '\t#\t%d\t"%s"\t1', "#line   %d", '%%:line %d "%s"']
DIRECTIVE_CONTEXTS = [
    ('int a;\n# 20 "p.h"\nint b;\n', "\nint c;\n", "p.h", 21),
    ("int a;\n", "\nint c;\n", "t.c", 2),
    ("void f(void) {\n  int x;\n", "\n  x = 1;\n}\n", "t.c", 3),
    ("#line 99\nstruct S { int m;\n", "\nint n; };\n", "t.c", 100),
    ("", "\nint z;\n", "t.c", 1),
    ('# 7 "a b.h" 1\nint q = 1 +\n', "\n2;\n", "a b.h", 8),
]
_DIR_HEAD = re.compile(r"^[ \t]*#[ \t]*(?:line[ \t]*)?(?=\d)")


def directive_error_shard(arg):
    """An illegal character at every offset of a line directive behind the
    first digit of its line number (outside the quoted file name): the ParseError names
    exactly that column, with the file and line in force on the directive's
    own line.  (Before the number the line is no line directive any more and
    the error is about the '#': no claim.)"""
    fi, = arg
    form = DIRECTIVE_FORMS[fi]
    st = Stats()
    for num, name in ((5, "a.h"), (12345, "dir/b c.h"), (1, ""), (40, "x:y.h")):
        text = form % ((num, name) if "%s" in form else (num,))
        m = _DIR_HEAD.match(text)
        if not m:
            st.classes["directive_form_without_claim"] += 1
            continue
        q1 = text.find('"')
        q2 = text.rfind('"')
        for pre, post, wfile, wline in DIRECTIVE_CONTEXTS:
            base = parse_outcome(pre + text + post, "t.c", ("t.c", "p.h", "a b.h"))
            if base[0] != "ast":
                st.classes["directive_context_not_accepted"] += 1
                continue
            for off in range(m.end() + 1, len(text) + 1):
                if q1 >= 0 and q1 < off <= q2:
                    continue  # inside the quoted file name
                for bad in ("@", "`"):
                    src = pre + text[:off] + bad + text[off:] + post
                    out = parse_outcome(src, "t.c", ("t.c", "p.h", "a b.h"))
                    st.evaluations += 1
                    st.nontrivial += 1
                    case = ("directive", src, wfile, wline, off + 1)
                    if out[0] != "perr":
                        st.failures.append(dict(subcheck="error-location", case=case, text=src, detail="illegal %r inside a line directive at %s:%d:%d not rejected with ParseError (%s)" % (bad, wfile, wline, off + 1, out[0]), sig="illegal-not-rejected"))
                        continue
                    mm = _LOC.match(out[1])
                    got = (mm.group(1), int(mm.group(2)), int(mm.group(3))) if mm else None
                    if got != (wfile, wline, off + 1):
                        st.failures.append(dict(subcheck="error-location", case=case, text=src, detail="illegal %r inside a line directive at %s:%d:%d reported as %r" % (bad, wfile, wline, off + 1, out[1][:80]), sig="illegal-char-location-in-directive"))
                    if len(st.failures) > 20:
                        return st
    st.classes["directive_injections"] += st.evaluations
    return st


def random_shard(arg):
    seed, n = arg
    st = Stats()

    def body(c):
        tu, g = build(c)
        res = check_coords(tu, c, st, ("unit", tu))
        if res is not None and c.chance(0.35):
            laid, toks = res
            check_errors(toks, c, st, ("unit", tu))
        for f, k in g.features.items():
            st.classes["feature." + f] += k
        if st.evaluations % 211 == 1 and res is not None:
            st.sample(res[0].text[:400])

    hyp_search(body, seed, n, st)
    return st


def run(ctx):
    ctx.map(directive_error_shard, [(i,) for i in range(len(DIRECTIVE_FORMS))])
    ctx.map(random_shard, [(s, ctx.pick(300, 3000)) for s in ctx.shard_seeds(16)])


def replay(subcheck, case):
    """case = ('unit', tu, text): re-check the recorded text.  Coordinates are
    re-derived by re-lexing positions from the stored text with the renderer's
    token list (the layout itself is not stored, only its result)."""
    from ..reflex import pp_tokens

    if case[0] == "directive":
        _, src, wfile, wline, wcol = case
        out = parse_outcome(src, "t.c", ("t.c", "p.h", "a b.h"))
        if out[0] != "perr":
            fail(subcheck, case, src, "illegal character inside a line directive not rejected with ParseError (%s)" % out[0], "illegal-not-rejected")
        mm = _LOC.match(out[1])
        got = (mm.group(1), int(mm.group(2)), int(mm.group(3))) if mm else None
        if got != (wfile, wline, wcol):
            fail(subcheck, case, src, "illegal character inside a line directive at %s:%d:%d reported as %r" % (wfile, wline, wcol, out[1][:80]), "illegal-char-location-in-directive")
        return
    _, tu, text = case
    tu = M.freshen(tu)
    rend = M.Renderer("min")
    rend.unit(tu)
    # (the stored text is re-tokenised by the reference tokenizer: 'T0;' of the
    # prelude is two tokens there)
    pre = [T(x) for x in pp_tokens(gen.PRELUDE)]
    toks = pre + [T(t.s, t.line) for t in rend.toks]
    if subcheck == "error-location":
        out = parse_outcome(text, "f.c", ("f.c", "g.h", "dir/h.h", "a b.c", ""))
        pos = positions_in(text)
        if out[0] != "perr":
            fail(subcheck, case, text, "not rejected with ParseError", "illegal-not-rejected")
        mm = _LOC.match(out[1])
        if mm:
            got = (mm.group(1), int(mm.group(2)), int(mm.group(3)))
            bad = [p for p, s in pos if s in INJECT_EXACT or s in ("/*", "//", "@", "`", "\\")]
            if bad and got != bad[0]:
                fail(subcheck, case, text, "illegal text at %r reported as %r" % (bad[0], out[1][:80]), "illegal-char-location")
            if got not in {p for p, _ in pos}:
                fail(subcheck, case, text, "location %r is not a token start" % (got,), "error-not-a-token")
        return
    pos = positions_in(text)
    laid = type("L", (), {})()
    laid.pos = [p for p, _ in pos if True]
    laid.inside_markers = []
    laid.extra = {}
    laid.text = text
    if [s for _, s in pos] != [t.s if not t.line else "pragma" for t in toks]:
        from ..runner import HarnessError

        raise HarnessError("C11 replay: the stored text does not tokenise to the model's tokens")
    out = parse_outcome(text, "f.c", ("f.c", "g.h", "dir/h.h", "a b.c", ""))
    if out[0] != "ast":
        return
    exp = M.Expect(ann=True).unit(tu)
    w = Walker(rend, laid, len(pre), text, case)
    w.toks = toks
    w.walk(exp[1][1], out[1].ext[gen.PRELUDE_NEXT :])


def positions_in(text):
    """independent positions of tokens in a laid-out text: [( (file,line,col), spelling )]"""
    from .. import reflex

    out = []
    fname = "f.c"
    line = 1
    for raw in text.split("\n"):
        s = raw.lstrip(" \t")
        if s.startswith("#"):
            body = s[1:].lstrip(" \t")
            if body.startswith("pragma"):
                out.append(((fname, line, len(raw) - len(s) + 1 + (len(s) - len(body))), "pragma"))
                line += 1
                continue
            m = re.match(r'(?:line)?[ \t]*(\d+)(?:[ \t]*"((?:[^"\\\n]|\\.)*)")?', body)
            if m:
                line = int(m.group(1))
                if m.group(2) is not None:
                    fname = m.group(2)
                continue
        col = 0
        i = 0
        while i < len(raw):
            if raw[i] in " \t":
                i += 1
                continue
            m = None
            for rx in (reflex.CHRE, reflex.STRE, reflex.PPNUM, reflex.IDRE):
                m = rx.match(raw, i)
                if m:
                    break
            if m:
                out.append(((fname, line, i + 1), m.group()))
                i = m.end()
                continue
            if raw.startswith("/*", i) or raw.startswith("//", i):
                out.append(((fname, line, i + 1), raw[i : i + 2]))
                i = len(raw)
                continue
            for p in reflex.REFPUNCT:
                if raw.startswith(p, i):
                    out.append(((fname, line, i + 1), p))
                    i += len(p)
                    break
            else:
                out.append(((fname, line, i + 1), raw[i]))
                i += 1
        line += 1
    return out
