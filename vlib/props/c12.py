"""C12 - a parser's result depends only on (text, filename), never on its history."""
import re

import hypothesis
from hypothesis import HealthCheck, Phase, settings
from hypothesis import strategies as st
from hypothesis.stateful import RuleBasedStateMachine, invariant, precondition, rule, run_state_machine_as_test
from pycparser import c_ast, c_generator, c_parser
from pycparser.c_lexer import CLexer

from .. import cmodel as M
from .. import gen
from ..astdump import dump
from ..choose import Chooser
from ..runner import CheckFailure, HarnessError, Stats, fail
from . import c06

ID = "C12"
RULE = (
    "Hypothesis RuleBasedStateMachine (histories of 5-40 calls) over one long-lived CParser, two long-lived CGenerators (both "
    "configurations) and one bare CLexer. Rules: parse a generated valid translation unit; parse one truncated at an arbitrary "
    "token (possibly right after a #pragma token); parse programs from a pool built to clash (typedef T / object T / open "
    "scopes / linemarkers / lexer errors); parse token soup; parse an earlier text again; generate C from any AST obtained so "
    "far; lex arbitrary text with the reused lexer. Oracle after every call: outcome (AST dump WITH coordinates, or exception "
    "type and message) equals a fresh instance's on the same arguments; generated text equals a fresh generator's; node, list "
    "and Coord objects of every returned AST are disjoint from those of all earlier ASTs. Non-trivial: the history contains a "
    "failing parse that left >= 1 open scope after declaring a typedef, followed by a parse whose text uses that name; "
    "distinct by hash of the history."
    ' Bursts: one of 13 texts failing deep inside a nesting (parentheses, braces, brackets, declarators, scopes with typedefs) 2 - 9 times in a row, then a witness text that must still parse as on a fresh instance. '
)
ASSUMPTIONS = ["the reference for every parse is a private copy of the pycparser package created for that one call; a fresh instance inside the checking process is compared with it on every fourth call"]
QUARANTINE = ()

POOL = [
    "typedef int T; T * x;", "int T; void f(void){ T * x; }", "T * x;", "typedef int T; void f(void){ { { T y;", "int x\n#pragma foo\n;",
    "typedef char U; struct S { U", "void f(void) { int T; {", "}", 'typedef int T;\n# 7 "g.h"\nT a;\n', "int a = sizeof(T);",
    "enum { T }; int b = T;", "void g(int T) { T = 1; }", '"unterminated', "int @;", "/* c */ int x;", "typedef int T, U; U f(T);",
    "void h(void){ typedef long U; U u; {", "U u2;", "int T(void);", "struct T { int T; } T;", "int x;\n#pragma",
    "void k(void){ for(;;) { if (a) {", "typedef int a; a b;", "void m(void) { a * b; }", "struct E {};", "void n(void) { struct {} e; }",
    "void f(void) { if (1) { x = 1; } else { } }", "#line 9 \"z.c\"\nint", "int y; // c", "f() { return 1; }", "main() { }\ng(a, b) { return a; }",
    "int k(a) char a; { return a; }", "static f(void); extern g();", "void p(void) { register r(); }",
    # runs of adjacent string literals, and inputs that fail right behind / inside such a run
    'char *s = "a" "b" "c";', 'char *s = "a" "b" @;', 'char *s = "ab" "cd" // x', 'char *s = "a" "b" "c', 'int *w = L"p" L"q";', 'int *w = L"a" L"b" `',
    'char *t = u8"x" u8"y" u8"z"; char *v = "1" "2";', 'void f(void) { g("a" "b", "c" "d" @); }', '_Static_assert(1, "m" "n" $@',
    # failures inside many open parentheses, and ordinary parenthesised expressions afterwards
    "int x = " + "(" * 60 + "1 + ;", "int y = " + "(" * 70 + "2 )) + @", "int f(int a) { return (a + 1) * ((2)); }", "int z = " + "(" * 45 + "3" + ")" * 45 + ";",
    # inputs that fail exactly at a #pragma / _Pragma token in a place the grammar cannot take one
    "int x =\n#pragma omp atomic\n 1;", "void f(void) { do x; \n#pragma q r\n while (0); }", "enum E { A,\n#pragma in enum\n B };", "int g(void)\n#pragma before body\n{ }",
]  # fmt: skip


TEMPLATES = ["int v = %s ;", "void f ( void ) { x = %s ; }", "int a [ %s ] ;", "void f ( void ) { return %s ; }", "typedef int T0 ; int w = sizeof %s ;"]
_TN = ("tn", [("t", "int")], [])
_TNS = ("tn", [("su", "struct", "S", [("decl", [("t", "int")], [("d", "a", [], None, None, None)]), ("decl", [("t", "int")], [("d", "b", [], None, None, None)])])], [])
HOLES = [
    ("const", "1", "int"), ("id", "y"), ("cast", _TN, ("id", "y")), ("cl", _TN, ("il", [([], ("ie", ("const", "1", "int")))], False)),
    ("mem", ("cl", _TNS, ("il", [([], ("ie", ("const", "1", "int"))), ([], ("ie", ("const", "2", "int")))], False)), ".", "a"),
    ("sizeoft", _TN), ("pre", "sizeof", ("cl", _TN, ("il", [([], ("ie", ("id", "y")))], False))), ("bin", "+", ("id", "y"), ("const", "1", "int")),
    ("cast", ("tn", [("t", "long")], [("arr", [], None, ("const", "5", "int"))]), ("id", "z")), ("call", ("id", "g"), [("id", "y")]),
]


# texts that fail deep inside some nesting (parentheses, brackets, braces, declarators,
# initializer lists, argument lists, scopes with typedefs), for parse_burst
BURST = [
    "int x = " + "(" * 60 + "1 + ;", "int y = " + "(" * 100 + "2 ]", "int a[] = " + "{ " * 80 + "1, @", "int v = f" + "(g" * 70 + "(1, ;",
    "void f(void) { " + "{ " * 60 + "x = (1 + ; ", "int " + "(*" * 50 + "p" + ")" * 20 + ";", "int q = a" + "[b" * 70 + "[0 }",
    "typedef int T; void f(void) { " + "{ typedef int T; T t; " * 30 + "T ( ;", "struct S { " + "struct { " * 50 + "int m; @", "int z = " + "1 ? " * 60 + "2 : ;",
    "void f(void) { " + "if (1) " * 60 + "x = ((( ;", "int s = sizeof" + "(int[" * 40 + "1 ;", "int c = " + "(int)" * 80 + "(@",
]
WITNESS = [
    "int f(int a) { return (a + 1) * ((2)); }", "typedef int T; T * x; void f(void) { T * y; { int T; T * y; } (T)(1); }", "int a[2][2] = { { 1, 2 }, { (3), 4 } };",
    "int v = f(g(1), (h)(2, 3))[4]; int (*p)(int (*)(void));", "struct S { struct { int m; } n; } s = { { 1 } }; int z = 1 ? 2 : (3 ? 4 : 5);", "void f(void) { if (1) { x = ((1)); } else { int a[sizeof(int[2])]; } }",
]


def ids_of(n, acc):
    if isinstance(n, c_ast.Node):
        acc.add(id(n))
        if n.coord is not None:
            acc.add(id(n.coord))
        for s in n.__slots__:
            if s not in ("coord", "__weakref__"):
                ids_of(getattr(n, s), acc)
    elif isinstance(n, list):
        acc.add(id(n))
        for x in n:
            ids_of(x, acc)


def outcome(parser, text, fname):
    try:
        ast = parser.parse(text, fname)
        return ("ok", dump(ast, True)), ast
    except RecursionError:
        return ("recursion",), None
    except Exception as e:  # noqa: BLE001
        return ("err", type(e).__name__, str(e)), None


def lex_outcome(lx, text, fname):
    errs = []
    lx.error_func = lambda m, l, c: errs.append((m, l, c))
    lx.input(text, fname)
    toks = []
    for _ in range(len(text) + 3):
        t = lx.token()
        if t is None:
            break
        toks.append((t.type, t.value, t.lineno, t.column))
    return toks, errs, lx.filename


_TYPEDEF_NAME = re.compile(r"typedef\b[^;{}]*?\b([A-Za-z_]\w*)\s*;")


import time as _time


class Machine(RuleBasedStateMachine):
    stats = None  # set by the shard
    fails = None  # failures seen while searching/shrinking
    first_fail_t = None
    SHRINK_SECONDS = 25.0

    def expired(self):
        """shrink budget used up: let Hypothesis wind down quickly"""
        return Machine.first_fail_t is not None and _time.time() - Machine.first_fail_t > Machine.SHRINK_SECONDS

    def flunk(self, subcheck, detail, sig):
        if Machine.first_fail_t is None:
            Machine.first_fail_t = _time.time()
        try:
            fail(subcheck, list(self.history), self.render(), detail, sig)
        except CheckFailure as f:
            Machine.fails.append(f.failure)
            raise

    def __init__(self):
        super().__init__()
        self.parser = c_parser.CParser()
        self.gens = {False: c_generator.CGenerator(False), True: c_generator.CGenerator(True)}
        self.lexer = CLexer(lambda m, l, c: None, lambda: None, lambda: None, lambda n: n in ("T", "U"))
        self.asts = []
        self.texts = []
        self.seen_ids = set()
        self.history = []
        self.poison = set()
        self.nontrivial = False

    # -- helpers
    def do_parse(self, text, fname, kind):
        if self.expired():
            return
        self.history.append(("parse", kind, text, fname))
        Machine.stats.evaluations += 1
        got, ast = outcome(self.parser, text, fname)
        # the reference: a private copy of the package made for this one call
        # (vlib/pristine.py) - a fresh instance of the class under test would
        # share whatever the class or module keeps between instances
        from ..pristine import private_call

        exp = private_call("parse_dump", text, fname)
        Machine.stats.classes["references_from_private_copies"] += 1
        if Machine.stats.evaluations % 4 == 0:
            fresh, _ = outcome(c_parser.CParser(), text, fname)
            if fresh != exp:
                self.flunk("history", "call %d (%s): a FRESH CParser in this process differs from a copy of the package that has parsed nothing - %r vs %r" % (len(self.history), kind, fresh[:2] if fresh[0] == "err" else "ok", exp[:2] if exp[0] == "err" else "ok"), "history:class-level-state")
        if got != exp:
            a = got[:2] if got[0] == "err" else got[0]
            b = exp[:2] if exp[0] == "err" else exp[0]
            detail = "reused parser: %r, fresh parser: %r" % (got[1:] if got[0] == "err" else "ok", exp[1:] if exp[0] == "err" else "ok")
            self.flunk("history", "call %d (%s) differs from a fresh instance - %s" % (len(self.history), kind, detail[:600]), "history:%s-vs-%s" % (a if isinstance(a, str) else a[0] + ":" + a[1], b if isinstance(b, str) else b[0] + ":" + b[1]))
        if any(re.search(r"\b%s\b" % re.escape(nm), text) for nm in self.poison):
            self.nontrivial = True
        if ast is not None:
            s = set()
            ids_of(ast, s)
            if s & self.seen_ids:
                self.flunk("shared-nodes", "AST of call %d shares %d objects with earlier ASTs" % (len(self.history), len(s & self.seen_ids)), "shared-nodes")
            self.seen_ids |= s
            self.asts.append(ast)
        else:
            # a failing parse: did it leave scopes open after declaring a typedef?
            depth = text.count("{") - text.count("}")
            if got[0] == "err" and depth > 0:
                for m in _TYPEDEF_NAME.finditer(text):
                    self.poison.add(m.group(1))
        self.texts.append((text, fname))

    def render(self):
        out = []
        for h in self.history:
            if h[0] == "parse":
                out.append("parse[%s](%r, %r)" % (h[1], h[2][:300], h[3]))
            else:
                out.append(repr(h)[:300])
        return "\n".join(out)

    # -- rules
    @rule(data=st.data(), fname=st.sampled_from(["", "a.c", "b/c.h"]))
    def parse_valid(self, data, fname):
        c = Chooser(data)
        g = gen.G(c, quarantine=QUARANTINE, max_nodes=120)
        tu = M.freshen(gen.gen_unit(g, c.int(1, 3)))
        r = M.Renderer("min")
        r.unit(tu)
        self.do_parse(gen.PRELUDE + "\n" + M.text_of(r.toks), fname, "valid")

    @rule(data=st.data(), fname=st.sampled_from(["", "a.c"]))
    def parse_truncated(self, data, fname):
        c = Chooser(data)
        g = gen.G(c, quarantine=QUARANTINE, max_nodes=120)
        tu = M.freshen(gen.gen_unit(g, c.int(1, 3)))
        r = M.Renderer("min")
        r.unit(tu)
        toks = r.toks
        cut = c.int(0, len(toks))
        # prefer cutting right after a #pragma line now and then (pending token in the lexer)
        prag = [i + 1 for i, t in enumerate(toks) if t.line]
        if prag and c.chance(0.3):
            cut = c.choice(prag)
        text = gen.PRELUDE + "\n" + M.text_of(toks[:cut])
        if c.chance(0.2):
            text = text.rstrip("\n")
        self.do_parse(text, fname, "truncated")

    @rule(data=st.data(), t=st.integers(0, len(TEMPLATES) - 1))
    def parse_template(self, data, t):
        """the same template with different hole contents: successive texts agree
        token for token (index, line, column) up to the hole - the situation in
        which anything remembered by position from an earlier parse would be hit"""
        c = Chooser(data)
        g = gen.G(c, quarantine=QUARANTINE, max_nodes=25)
        if c.chance(0.5):
            e = gen.gen_expr(g, c.int(0, 3))
        else:
            e = c.choice(HOLES)
        r = M.Renderer(c.choice(["min", "full"]))
        r.E(M.freshen(e), M.L_ASG)
        self.do_parse(TEMPLATES[t] % " ".join(tk.s for tk in r.toks), "t.c", "template")

    @rule(i=st.integers(0, len(POOL) - 1), fname=st.sampled_from(["", "a.c", "b/c.h"]))
    def parse_pool(self, i, fname):
        self.do_parse(POOL[i], fname, "pool")

    @rule(i=st.integers(0, len(BURST) - 1), k=st.integers(2, 9), w=st.integers(0, len(WITNESS) - 1))
    def parse_burst(self, i, k, w):
        """'any number of times': the same failing text k times in a row (whatever
        a failure leaves behind adds up), then a text that must still parse"""
        for _ in range(k):
            self.do_parse(BURST[i], "a.c", "burst")
        self.do_parse(WITNESS[w], "a.c", "witness")

    @rule(data=st.data())
    def parse_soup(self, data):
        c = Chooser(data)
        toks = [c.choice(c06.ALPH) for _ in range(c.int(1, 12))]
        self.do_parse(c.choice(["", "typedef int T; ", "void f(void) { "]) + " ".join(toks), "s.c", "soup")

    @precondition(lambda self: len(self.texts) > 0)
    @rule(data=st.data())
    def parse_again(self, data):
        text, fname = self.texts[Chooser(data).below(len(self.texts))]
        self.do_parse(text, fname, "again")

    @precondition(lambda self: len(self.asts) > 0)
    @rule(data=st.data(), rp=st.booleans())
    def generate(self, data, rp):
        if self.expired():
            return
        i = Chooser(data).below(len(self.asts))
        self.history.append(("generate", i, rp))
        Machine.stats.evaluations += 1

        def run(gn):
            try:
                return ("ok", gn.visit(self.asts[i]))
            except RecursionError:
                return ("recursion",)
            except Exception as e:  # noqa: BLE001
                return ("err", type(e).__name__)

        got = run(self.gens[rp])
        exp = run(c_generator.CGenerator(rp))
        if got[0] == "err" and False:
            pass
        if got != exp:
            self.flunk("generator-history", "reused CGenerator(reduce_parentheses=%s) output differs from a fresh one on AST %d" % (rp, i), "generator-history")

    @rule(data=st.data(), fname=st.sampled_from(["", "l.c"]))
    def lex(self, data, fname):
        if self.expired():
            return
        c = Chooser(data)
        k = c.below(3)
        if k == 0:
            text = POOL[c.below(len(POOL))]
        elif k == 1 and self.texts:
            text = self.texts[c.below(len(self.texts))][0]
        else:
            text = " ".join(c.choice(c06.ALPH + ["T", "U", "\n#pragma x", "'", '"']) for _ in range(c.int(1, 15)))
        self.history.append(("lex", text, fname))
        Machine.stats.evaluations += 1
        got = lex_outcome(self.lexer, text, fname)
        fresh = CLexer(lambda m, l, c_: None, lambda: None, lambda: None, lambda n: n in ("T", "U"))
        exp = lex_outcome(fresh, text, fname)
        if got != exp:
            self.flunk("lexer-history", "reused CLexer differs from a fresh one on %r" % text[:200], "lexer-history")

    def teardown(self):
        s = Machine.stats
        if self.nontrivial:
            s.nt(repr(self.history))
        s.classes["histories"] += 1
        s.classes["calls"] += len(self.history)
        if s.classes["histories"] % 37 == 1 and self.history:
            s.sample([h[:3] if h[0] != "parse" else ("parse", h[1], h[2][:80]) for h in self.history[:8]])


def machine_shard(arg):
    seed, n, steps = arg
    stats = Stats()
    Machine.stats = stats
    Machine.fails = []
    Machine.first_fail_t = None

    class M2(Machine):
        pass

    try:
        run_state_machine_as_test(
            hypothesis.seed(seed)(M2),
            settings=settings(
                max_examples=n, stateful_step_count=steps, database=None, deadline=None, report_multiple_bugs=False,
                suppress_health_check=list(HealthCheck), phases=[Phase.generate, Phase.shrink], print_blob=False,
            ),
        )  # fmt: skip
    except CheckFailure:
        pass
    except HarnessError:
        raise
    except Exception as e:  # noqa: BLE001
        # after the shrink budget expired the final replay may pass (Flaky):
        # the recorded failures below are what counts
        if not Machine.fails:
            raise HarnessError("state machine run failed: %r" % (e,))
    if Machine.fails:
        stats.failures.append(min(Machine.fails, key=lambda f: (len(f["case"]), len(f["text"]))))
    return stats


def run(ctx):
    ctx.map(machine_shard, [(s, ctx.pick(120, 800), ctx.pick(20, 40)) for s in ctx.shard_seeds(16)])


def replay(subcheck, case):
    """case: the recorded history; replayed on fresh long-lived instances"""
    Machine.stats = Stats()
    m = Machine()
    for h in case:
        if h[0] == "parse":
            m.do_parse(h[2], h[3], h[1])
        elif h[0] == "generate":
            _, i, rp = h
            if i < len(m.asts):
                a = m.gens[rp].visit(m.asts[i])
                b = c_generator.CGenerator(rp).visit(m.asts[i])
                if a != b:
                    fail("generator-history", case, m.render(), "reused generator differs", "generator-history")
        elif h[0] == "lex":
            _, text, fname = h
            got = lex_outcome(m.lexer, text, fname)
            fresh = CLexer(lambda m_, l, c_: None, lambda: None, lambda: None, lambda n: n in ("T", "U"))
            if got != lex_outcome(fresh, text, fname):
                fail("lexer-history", case, m.render(), "reused CLexer differs", "lexer-history")
