"""C03 - declaration ASTs encode C declarator semantics for every declared name."""
import itertools

from .. import cmodel as M
from .. import gen
from ..astdump import dump
from ..runner import CheckFailure, Stats, fail, hyp_search
from ..unitcheck import INT, _fn, check_unit

ID = "C03"
RULE = (
    "Declarations of an independent model: derivation sequences over {pointer(+qualifier sets), array(9 bound forms), "
    "function(5 parameter-list forms)} - exhaustive up to length 3 (quick) / 4 (thorough) - in 11 contexts (file scope, block, "
    "for-init, named/abstract parameter, struct member, typedef, cast/sizeof/_Alignof/compound-literal type names) with "
    "rotating base specifiers; Hypothesis-generated full declarations (shuffled specifier order, storage/function/alignment "
    "specifiers, 1-3 declarators, nested initializers with designators, bit-fields, struct/union/enum bodies, anonymous "
    "members, prototype and K&R definitions, redundant declarator parentheses, _Atomic(T) in its simple form). The parsed AST "
    "must equal the chain the inside-out rule gives; a census sub-check requires every storage/function/qualifier word of the "
    "source to appear in the AST. Non-trivial: derivation length >= 2 with two different constructor kinds, or >= 2 declarators, "
    "or an initializer with a designator; distinct by construction / by hash of the rendered text."
    ' Name reuse: every derivation sequence of length <= 2 (quick) / 3 (thorough) declared under the name of a visible file-scope typedef in 6 contexts (block object, block typedef followed by a use, for-init, prototype parameter, definition parameter followed by a use, member); parenthesised parameter declarators of that kind are excluded (finding F9a). '
)
ASSUMPTIONS = ["expected AST per _c_ast.cfg and README (vlib/cmodel.py Expect); TypeDecl.align and Typename.name '' vs None are normalised"]
QUARANTINE = ("stmt.static_assert_in_block", "decl.register_on_unnamed_parameter")

A = ("id", "a")
C3 = ("const", "3", "int")
PTRS = [("ptr", []), ("ptr", ["const"]), ("ptr", ["volatile", "restrict"]), ("ptr", ["_Atomic", "const"])]
ARRS = [
    ("arr", [], None, None), ("arr", [], None, C3), ("arr", [], None, ("bin", "+", A, C3)), ("arr", [], None, ("star",)),
    ("arr", [], "first", C3), ("arr", ["const"], None, C3), ("arr", ["const", "volatile"], "last", C3),
    ("arr", ["restrict"], None, None), ("arr", ["const"], None, ("star",)), ("arr", ["volatile"], "first", A),
]  # fmt: skip
P_INT = ("param", [("t", "int")], ("d", None, [], None, None, None))
P_T0 = ("param", [("t", "T0")], ("d", None, [], None, None, None))
FNS = [
    ("fn", None),
    # a lone typedef name in parentheses: in a parameter it must be read as a parameter TYPE (C11 6.7.6.3p11)
    ("fn", ("proto", [P_T0], False)),
    ("fn", ("proto", [("param", [("t", "void")], ("d", None, [], None, None, None))], False)),
    ("fn", ("proto", [("param", [("t", "int")], ("d", "pa", [], None, None, None)), ("param", [("t", "char")], ("d", "pb", [("ptr", [])], None, None, None))], False)),
    ("fn", ("proto", [P_INT], True)),
    ("fn", ("proto", [("param", [("t", "int")], ("d", None, [("ptr", []), ("fn", ("proto", [P_INT], False))], None, None, None)), ("param", [("t", "T0")], ("d", "pc", [("arr", [], "first", C3)], None, None, None))], False)),
]  # fmt: skip
ALPHABET = PTRS + ARRS + FNS

BASES = [
    [("t", "int")], [("t", "unsigned"), ("t", "long")], [("q", "const"), ("t", "char")], [("t", "T0")], [("t", "T1"), ("q", "volatile")],
    [("su", "struct", "S", None)], [("t", "long"), ("q", "const"), ("t", "long"), ("t", "unsigned"), ("t", "int")],
    [("enum", "E", None, False)], [("t", "double"), ("t", "_Complex")], [("su", "union", None, [("decl", [("t", "int")], [("d", "z", [], None, None, None)])])],
    [("q", "_Atomic"), ("t", "int")], [("t", "_Bool")],
]  # fmt: skip

CONTEXTS = ["file", "block", "forinit", "param", "aparam", "member", "typedef", "cast", "sizeof", "alignof", "cl"]


def embed(ctxname, spec, deriv, parens=None):
    """translation unit placing (spec, deriv) in a context"""
    named = ctxname in ("file", "block", "forinit", "param", "member", "typedef")
    d = ("d", "x" if named else None, list(deriv), None, None, parens)
    if ctxname == "file":
        return ("tu", [("decl", list(spec), [d])])
    if ctxname == "typedef":
        return ("tu", [("decl", [("s", "typedef")] + list(spec), [d])])
    if ctxname == "block":
        return _fn([("decl", list(spec), [d])])
    if ctxname == "forinit":
        return _fn([("for", ("d", ("decl", list(spec), [d])), None, None, ("empty",))])
    if ctxname in ("param", "aparam"):
        return ("tu", [("decl", [("t", "void")], [("d", "g", [("fn", ("proto", [("param", list(spec), d)], False))], None, None, None)])])
    if ctxname == "member":
        return ("tu", [("decl", [("su", "struct", "Q", [("decl", list(spec), [d])])], [])])
    tn = ("tn", list(spec), list(deriv))
    e = {"cast": ("cast", tn, A), "sizeof": ("sizeoft", tn), "alignof": ("alignof", tn), "cl": ("cl", tn, ("il", [([], ("ie", A))], False))}[ctxname]
    return ("tu", [("decl", INT, [("d", "v", [], ("ie", e), None, None)])])


def kinds_of(deriv):
    return {d[0] for d in deriv}


def census(tu, ast, src, case):
    """every storage-class / function-specifier / qualifier word written in
    the source appears in the AST (storage, funcspec, quals, dim_quals)"""
    want = {}

    def walk_model(m):
        if isinstance(m, tuple):
            if len(m) == 2 and m[0] in ("q", "s", "f") and isinstance(m[1], str):
                want[m[1]] = want.get(m[1], 0) + 1
            if m and m[0] == "ptr":
                for q in m[1]:
                    want[q] = want.get(q, 0) + 1
            if m and m[0] == "arr":
                for q in m[1]:
                    want[q] = want.get(q, 0) + 1
                if m[2]:
                    want["static"] = want.get("static", 0) + 1
            for x in m:
                walk_model(x)
        elif isinstance(m, list):
            for x in m:
                walk_model(x)

    walk_model(tu)
    have = {}

    def walk_dump(d):
        if isinstance(d, tuple):
            if len(d) == 2 and d[0] in ("storage", "funcspec", "dim_quals") and isinstance(d[1], list):
                for w in d[1]:
                    have[w] = have.get(w, 0) + 1
            if d and d[0] in ("Decl", "Typedef", "Typename", "PtrDecl"):
                # base-level qualifiers are mirrored on the TypeDecl; count the Decl/Typename/PtrDecl copy
                for x in d[1:]:
                    if x[0] == "quals":
                        for w in x[1]:
                            have[w] = have.get(w, 0) + 1
            for x in d:
                walk_dump(x)
        elif isinstance(d, list):
            for x in d:
                walk_dump(x)

    walk_dump(dump(ast))
    for w, n in want.items():
        if have.get(w, 0) < n:
            fail("census", case, src, "specifier word %r written %d time(s) but present %d time(s) in the AST" % (w, n, have.get(w, 0)), "census:" + w)


def check_decl_unit(tu, st, case, mode="min", pm=0):
    tu = M.freshen(tu)
    st.evaluations += 1
    src, ast = check_unit(tu, mode, M.paren_from_mask(pm), subcheck="decl", case=case)
    ext = gen.PRELUDE_NEXT
    census(tu, type(ast)(ast.ext[ext:]), src, case)
    return src


def enum_shard(arg):
    n, first_i, ctxs = arg
    st = Stats()
    idx = 0
    for rest in itertools.product(range(len(ALPHABET)), repeat=n - 1):
        seq = (first_i,) + rest
        deriv = [ALPHABET[i] for i in seq]
        nt = len(kinds_of(deriv)) >= 2
        for ci, cname in enumerate(CONTEXTS):
            if ctxs is not None and (idx + ci) % ctxs != 0:
                continue
            base = BASES[(idx + ci) % len(BASES)]
            named = cname in ("file", "block", "forinit", "param", "member", "typedef")
            if not named:
                # an abstract declarator: pointer qualifiers ending in _Atomic
                # followed by '(' would read as the _Atomic(type) specifier
                deriv2 = [(d if not (d[0] == "ptr" and d[1] and d[1][-1] == "_Atomic") else ("ptr", ["_Atomic", "const"])) for d in deriv]
            else:
                deriv2 = deriv
            if base and base[-1] == ("q", "_Atomic"):
                base = [("q", "_Atomic"), ("t", "int")]
            parens = None
            if idx % 3 == 1:
                parens = tuple(((idx >> k) & 1) == 1 for k in range(len(deriv2) + 1))
            case = ("enum", cname, base, deriv2, parens)
            try:
                src = check_decl_unit(embed(cname, base, deriv2, parens), st, case)
            except CheckFailure as f:
                st.failures.append(f.failure)
                if len(st.failures) > 40:
                    return st
                continue
            if nt:
                st.nontrivial += 1
            if idx % 2003 == 7 and ci == idx % len(CONTEXTS):
                st.sample(src.split("\n", 1)[1])
        idx += 1
    return st


REUSE_CONTEXTS = ["block", "btypedef", "forinit", "param", "fparam", "member"]
REUSE_NAMES = ["T0", "T1"]  # the typedef names of the prelude


def embed_reuse(cname, spec, deriv, name):
    """the declared entity re-uses a name that means something else (a
    typedef name) in the enclosing scope; where the context allows, the name is
    then used with its new meaning"""
    d = ("d", name, list(deriv), None, None, None)
    use = ("expr", ("id", name))
    if cname == "block":
        return _fn([("decl", list(spec), [d]), use])
    if cname == "btypedef":
        return _fn([("decl", [("s", "typedef")] + list(spec), [d]), ("decl", [("t", name)], [("d", "y", [], None, None, None)])])
    if cname == "forinit":
        return _fn([("for", ("d", ("decl", list(spec), [d])), None, None, use)])
    if cname == "param":
        return ("tu", [("decl", [("t", "void")], [("d", "g", [("fn", ("proto", [("param", list(spec), d)], False))], None, None, None)])])
    if cname == "fparam":
        return ("tu", [("fdef", [("t", "void")], ("d", "g", [("fn", ("proto", [("param", list(spec), d)], False))], None, None, None), None, ("block", [use]))])
    return ("tu", [("decl", [("su", "struct", "Q", [("decl", list(spec), [d])])], [])])


def _mentions(m, name):
    if isinstance(m, (tuple, list)):
        return any(_mentions(x, name) for x in m)
    return m == name


def _name_in_parens(deriv):
    """a pointer constructor applied before an array/function constructor is written '(*name)...'"""
    return any(d[0] == "ptr" and any(e[0] != "ptr" for e in deriv[i + 1 :]) for i, d in enumerate(deriv))


def reuse_shard(arg):
    first_i, n = arg
    st = Stats()
    idx = 0
    for rest in itertools.product(range(len(ALPHABET)), repeat=max(n - 1, 0)):
        deriv = [ALPHABET[i] for i in ((first_i,) + rest if n else ())]
        for ci, cname in enumerate(REUSE_CONTEXTS):
            for ni, name in enumerate(REUSE_NAMES):
                k = idx + ci + ni
                base = BASES[k % len(BASES)]
                while _mentions(base, name):
                    k += 1
                    base = BASES[k % len(BASES)]
                case = ("reuse", cname, base, deriv, name)
                if cname in ("param", "fparam") and _name_in_parens(deriv):
                    # '(*T0)[3]' in a parameter: finding F9a (the parenthesised typedef name is read as an abstract declarator)
                    st.excluded["decl.paren_typedef_name_parameter(F9a)"] += 1
                    continue
                try:
                    src = check_decl_unit(embed_reuse(cname, base, deriv, name), st, case)
                except CheckFailure as f:
                    st.failures.append(f.failure)
                    if len(st.failures) > 40:
                        return st
                    continue
                st.nontrivial += 1
                st.classes["reuse." + cname] += 1
                if idx % 97 == 3 and ci == idx % len(REUSE_CONTEXTS) and ni == 0:
                    st.sample(src.split("\n", 1)[1])
        idx += 1
    return st


def _has_designator(m):
    if isinstance(m, tuple):
        if m and m[0] == "il" and any(des for des, _ in m[1]):
            return True
        return any(_has_designator(x) for x in m)
    if isinstance(m, list):
        return any(_has_designator(x) for x in m)
    return False


def random_shard(arg):
    seed, n = arg
    st = Stats()

    def body(c):
        g = gen.G(c, quarantine=QUARANTINE)
        kind = c.weighted([(4, "file"), (3, "block"), (2, "member"), (2, "forinit"), (2, "param"), (3, "fdef"), (2, "typename")])
        if kind == "file":
            d = gen.gen_declaration(g, "file")
            tu = ("tu", [d])
        elif kind == "block":
            d = gen.gen_declaration(g, "block")
            tu = _fn([d])
        elif kind == "member":
            d = gen.gen_struct(g)
            tu = ("tu", [("decl", [d], [])])
        elif kind == "forinit":
            d = gen.gen_declaration(g, "forinit")
            tu = _fn([("for", ("d", d), None, None, ("empty",))])
        elif kind == "param":
            d = gen.gen_params(g)
            tu = ("tu", [("decl", [("t", "void")], [("d", "g", [("fn", d)], None, None, None)])])
        elif kind == "fdef":
            d = gen.gen_fdef(g)
            tu = ("tu", [d])
        else:
            d = gen.gen_typename(g, 3)
            ek = c.below(4)
            e = [("cast", d, A), ("sizeoft", d), ("alignof", d), ("cl", d, ("il", [([], ("ie", A))], False))][ek]
            tu = ("tu", [("decl", INT, [("d", "v", [], ("ie", e), None, None)])])
        mode = c.choice(["min", "red", "full"])
        pm = c.int(0, 0xFFFF) if mode == "red" else 0
        src = check_decl_unit(tu, st, ("random", tu, mode, pm), mode, pm)
        st.classes["kind." + kind] += 1
        for f, k in g.features.items():
            st.classes["feature." + f] += k
        for f, k in g.excluded.items():
            st.excluded[f] += k
        nontriv = False
        if d and d[0] == "decl":
            if len(d[2]) >= 2 or any(len(kinds_of(x[2])) >= 2 for x in d[2]) or _has_designator(d):
                nontriv = True
        elif _has_designator(d) or kind in ("fdef", "member"):
            nontriv = True
        if nontriv:
            st.nt(src)
        if st.evaluations % 397 == 1:
            st.sample(src.split("\n", 1)[1][:400])

    hyp_search(body, seed, n, st)
    return st


def run(ctx):
    nmax = ctx.pick(3, 4)
    jobs = []
    for n in range(1, nmax + 1):
        # lengths 1-3: every context; length 4: contexts rotated (one in 3 per sequence)
        jobs += [(n, i, None if n <= 3 else 3) for i in range(len(ALPHABET))]
    ctx.map(enum_shard, jobs)
    # declarations whose name already is a typedef name of the enclosing scope
    ctx.map(reuse_shard, [(0, 0)] + [(i, n) for n in range(1, ctx.pick(2, 3) + 1) for i in range(len(ALPHABET))])
    ctx.map(random_shard, [(s, ctx.pick(1200, 25000)) for s in ctx.shard_seeds(16)])
    ctx.exhaustive = True
    ctx.extra["exhaustive_bounds"] = "derivation sequences of length <= %d over %d constructors x %d contexts (length 4: every third context), base specifiers rotated over %d forms" % (nmax, len(ALPHABET), len(CONTEXTS), len(BASES))


def replay(subcheck, case):
    st = Stats()
    if case[0] == "enum":
        _, cname, base, deriv, parens = case
        check_decl_unit(embed(cname, base, deriv, parens), st, case)
    elif case[0] == "reuse":
        _, cname, base, deriv, name = case
        check_decl_unit(embed_reuse(cname, base, deriv, name), st, case)
    else:
        _, tu, mode, pm = case
        check_decl_unit(tu, st, case, mode, pm)
