"""C06 - parse() returns a FileAST or raises ParseError with a location.

(a) exhaustive token sequences after context prefixes, (b) Hypothesis-driven
token-level mutations of valid programs, (c) raw character noise.
"""
import itertools
import os

from .. import reflex
from ..corners import corner_programs
from ..corpus import corpus
from ..oracle import CountingLexer, parse_outcome
from ..runner import CheckFailure, Stats, fail, hyp_search
from pycparser import c_parser

ID = "C06"
RULE = (
    "(a) every token sequence of length <= N over a 57-token alphabet (every keyword class, punctuator and literal kind, "
    "'#', '@', a #pragma line, a linemarker) after each of 8 context prefixes; (b) Hypothesis-generated token-level "
    "mutations (delete/insert/replace/swap/duplicate/truncate, 1-4 edits) of corpus programs, corner-catalogue programs and "
    "generated programs; (c) raw character noise (incl. characters that Python's str predicates take for digits, blanks or letters) and '#' lines built "
    "from directive heads x line-number fields x file-name fields with hostile pieces (non-ASCII digits, 4400-digit numbers, "
    "unterminated strings), and every string of length <= 4 (quick) / 5 (thorough) over the literal alphabets of C10 as an "
    "initializer and as a subscript; (d) construct splicing: whole constructs (token ranges of declarations, "
    "statements, expressions, declarators, type names recorded by the model renderer) of one generated program inserted into or "
    "substituted for constructs of another; (e) coverage-guided campaigns (atheris/libFuzzer on the instrumented pycparser package; "
    "bytes decoded into token sequences over a 150-entry vocabulary or into raw text), half from an empty corpus and half from "
    "the committed corpus of earlier campaigns, failures bucketed by (exception type, innermost pycparser frame) and re-decided "
    "by this check. Oracle: FileAST, or ParseError whose message starts with "
    "'<file>:line:col: ' / '<file>:line: ' / '<file>: ' for a file name in play; RecursionError tolerated only for inputs "
    "of more than 100 tokens; CPU-time alarm = non-termination. Non-trivial: the parser requested at least two tokens "
    "beyond the context prefix before deciding (counted by a lexer subclass injected through lexer=); distinct by "
    "construction for (a), by hash of the text for (b)/(c)."
    ' Long literals: 8 openers x 15 pieces (escape forms, bad escapes, plain characters) x repetition counts up to 300 (quick) / 5 000 (thorough) x closed/open x 5 continuations x 2 contexts, each under the 10 s CPU alarm. '
)
ASSUMPTIONS = [
    "a CPU-time alarm of 10 s (short inputs) / 60 s (program mutants) is taken as non-termination",
    "RecursionError is tolerated only for inputs of more than 100 tokens",
]

ALPH = [
    "int", "T", "x", "typedef", "struct", "enum", "union", "const", "static", "inline", "_Atomic", "_Alignas",
    "_Alignof", "_Static_assert", "_Pragma", "sizeof", "offsetof", "void", "if", "else", "for", "while", "do",
    "switch", "case", "default", "goto", "return", "break", "(", ")", "[", "]", "{", "}", ";", ",", ":", "?",
    "=", "*", "+", "++", ".", "->", "...", "&", "1", "1u", "'a'", "'uu'", '"s"', 'L"s"', "1.5", "#", "@",
    "\n#pragma p\n", '\n# 3 "g.c"\n',
]  # fmt: skip
ALPH_REDUCED = ["int", "T", "x", "struct", "const", "_Atomic", "_Alignas", "sizeof", "(", ")", "[", "]", "{", "}", ";", ",", "=", "*", "1", ":"]
PREFIXES = [
    ("", 0),
    ("typedef int T; ", 4),
    ("typedef int T; void f(void) { ", 11),
    ("int a = ", 3),
    ("struct S { ", 3),
    ("void f(int a, ", 6),
    ("int a[", 3),
    ("enum E { ", 3),
]
FILES = ("f.c", "g.c")


def _check_text(src, ntok, pre_ntok, st, subcheck, case, cpu=10, filename="f.c", files=FILES):
    CountingLexer.ncalls = 0
    out = parse_outcome(src, filename, files, parser=c_parser.CParser(lexer=CountingLexer), cpu_seconds=cpu)
    st.evaluations += 1
    nontrivial = CountingLexer.ncalls >= pre_ntok + 2
    if out[0] == "ast":
        st.classes["accepted"] += 1
    elif out[0] == "perr":
        st.classes["rejected_with_location"] += 1
    else:
        _, sig, detail = out
        if sig == "exc:RecursionError" and ntok > 100:
            st.classes["recursion_tolerated"] += 1
        else:
            st.failures.append(dict(subcheck=subcheck, case=case, text=src, detail=detail, sig=sig))
    return nontrivial


def enum_shard(arg):
    pi, first, n, alph_name = arg
    alph = ALPH if alph_name == "full" else ALPH_REDUCED
    pre, pre_ntok = PREFIXES[pi]
    st = Stats()
    for k in range(0, n):
        for rest in itertools.product(alph, repeat=k):
            seq = (first,) + rest
            src = pre + " ".join(seq)
            if _check_text(src, len(seq), pre_ntok, st, "tokens", (pi, list(seq)), files=FILES + _line_files(src)):
                st.nontrivial += 1
            if len(st.failures) > 200:
                return st
    if first in ("sizeof", "{"):
        st.sample(pre + " ".join((first,) + ((alph[3],) * (n - 1))))
    return st


# ---------------------------------------------------------------------------
_bases = None


def bases():
    """Token lists of valid programs used as mutation seeds."""
    global _bases
    if _bases is None:
        out = []
        for name, text in corpus(big=False):
            items = reflex.split_source(text)
            if items is None:
                continue
            toks = [s if k == "tok" else "\n" + s + "\n" for k, s in items]
            # windows of corpus files keep cases fast; cut at top-level ';' / '}'
            out.extend(_windows(toks))
        for text in corner_programs():
            t = reflex.pp_tokens(text.replace("\n#", "\n #")) if "#" not in text else None
            if t:
                out.append(t)
        try:
            from ..cmodel import sample_programs

            for text in sample_programs(200):
                t = reflex.pp_tokens(text)
                if t:
                    out.append(t)
        except ImportError:
            pass
        _bases = out
    return _bases


def _windows(toks, size=160):
    out = []
    depth = 0
    cur = []
    for t in toks:
        cur.append(t)
        if t == "{":
            depth += 1
        elif t == "}":
            depth -= 1
        if depth == 0 and t in (";", "}") and len(cur) >= size:
            out.append(cur)
            cur = []
    if cur:
        out.append(cur)
    # prepend nothing: windows of preprocessed files are self-contained only by
    # luck (typedefs may be missing) - they are seeds for *robustness*, valid or not
    return [w for w in out if len(w) <= 400]


def mutate_body(c):
    bs = bases()
    toks = list(c.choice(bs))
    nedit = c.int(1, 4)
    for _ in range(nedit):
        k = c.below(6)
        i = c.below(len(toks))
        if k == 0:
            del toks[i]
        elif k == 1:
            toks.insert(i, c.choice(ALPH))
        elif k == 2:
            toks[i] = c.choice(ALPH)
        elif k == 3:
            if i + 1 < len(toks):
                toks[i], toks[i + 1] = toks[i + 1], toks[i]
        elif k == 4:
            toks.insert(i, toks[i])
        else:
            toks = toks[:i]
        if not toks:
            toks = [";"]
    fname = c.choice(["f.c", "", "dir with space/x.c", "a:b.c", "f.c:1:2"])
    src = " ".join(toks)
    return src, toks, fname


def mutant_shard(arg):
    seed, n = arg
    st = Stats()

    def body(c):
        src, toks, fname = mutate_body(c)
        _oracle_text(src, len(toks), fname, st, "mutant")

    hyp_search(body, seed, n, st)
    return st


def _oracle_text(src, ntok, fname, st, subcheck):
    sub = Stats()
    nt = _check_text(src, ntok, 0, sub, subcheck, (src, fname), cpu=60, filename=fname, files=(fname, "g.c") + _line_files(src))
    st.evaluations += 1
    st.classes.update(sub.classes)
    if nt:
        st.nt(src)
    if st.evaluations % 997 == 1:
        st.sample(src[:300])
    if sub.failures:
        raise CheckFailure(**sub.failures[0])


def _line_files(src):
    import re

    if "#" not in src:
        return ()

    # the lexer honours a '#' directive wherever it stands, not only at the
    # start of a line
    # (the string follows the lexer's own literal grammar - escapes allowed -
    # and the lexer strips every leading/trailing quote character)
    return tuple(m.group(1).lstrip('"').rstrip('"') for m in re.finditer(r'#[ \t]*(?:line)?[ \t]*\d+[ \t]*("(?:[^"\\\n]|\\.)*")', src))


def splice_shard(arg):
    """Construct splicing: whole constructs (declarations, statements,
    expressions, declarators, type names - token ranges recorded by the model
    renderer) of one generated program are inserted into / substituted for
    constructs of another at token boundaries.  Yields near-valid inputs that
    reach error paths deep inside productions."""
    from .. import cmodel as M
    from .. import gen

    seed, n = arg
    st = Stats()

    def render(c):
        g = gen.G(c, quarantine=(), max_nodes=60)
        tu = M.freshen(gen.gen_unit(g, c.int(1, 2)))
        r = M.Renderer("min")
        r.unit(tu)
        toks = [("\n" + t.s + "\n") if t.line else t.s for t in r.toks]
        ranges = sorted({rg for rg in r.ranges.values() if rg[1] > rg[0]})
        return toks, ranges

    def body(c):
        a, ra = render(c)
        b, rb = render(c)
        for _ in range(c.int(1, 2)):
            if not rb or not a:
                break
            lo, hi = c.choice(rb)
            frag = b[lo:hi]
            if c.chance(0.5) and ra:
                x, y = c.choice(ra)  # substitute a construct of a
                a = a[:x] + frag + a[y:]
            else:
                i = c.int(0, len(a))
                a = a[:i] + frag + a[i:]
            ra = [rg for rg in ra if rg[1] <= len(a)]
        src = gen.PRELUDE + " " + " ".join(a)
        _oracle_text(src, len(a) + 9, "f.c", st, "splice")

    hyp_search(body, seed, n, st)
    return st


NOISE = list(" \t\n") + [chr(i) for i in range(33, 127)] + ["\x00", "\x7f", "\xe9", "€", "\r", "\x0c"]
# characters that satisfy str.isdigit / isspace / isalpha / isidentifier without being
# what C (or int()) means by digit, blank, letter
ODD = ["\xb2", "\xb3", "\xb9", "\u2460", "\u0663", "\uff11", "\u0a69", "\x85", "\xa0", "\u2028", "\u3000", "\x1c", "\x0b", "\xaa", "\xb5", "\u2167", "\u00e9", "\ufeff"]
DIRECTIVE_HEADS = ["#", "# ", "#line ", "# line ", "#\tline\t", "#line", "#pragma ", "#pragma", "# pragma ", "_Pragma(", "%:", "#\x0c", "#\xa0"]
NUMBER_BITS = ["0", "1", "9", "07", "10", "123", "0x1", "1u", "1L", "1ull", "1.5", "1e3", "+1", "-1", "08", "1 2", "1'", "١", "99999999999999999999", "9" * 400, "1" * 4400, "0" * 5000 + "1"]
FILE_BITS = ['"g.c"', '"a b.c"', '"d\\\\e.c"', '"q\\"r.c"', '""', '"g.c', 'g.c"', "'g.c'", '<g.c>', 'L"g.c"', '"g.c" 1', '"g.c" 1 3 4', '"g.c" x', '"g.c" "h.c"', '"' + "f" * 3000 + '.c"', '"\xb2.c"']


def sliding_shard(arg):
    """A valid unit repeated many times behind j empty declarations (see C02):
    every construct of the unit stands on every token index; parse() must
    return a FileAST or a located ParseError whatever happens every so many tokens."""
    from . import c02

    j, reps = arg
    st = Stats()
    src = ";" * j + "\n" + c02.POSITION_UNIT * reps
    if _check_text(src, 1000, 0, st, "noise", (src, "f.c"), cpu=120):
        st.nontrivial += 1
    return st


def literal_shard(arg):
    """Every string of length <= n over the literal alphabets of C10 (digits,
    suffix letters, '.', exponent and sign characters, quotes, backslash, prefix
    letters), as an initializer and as an array bound: whatever the lexer makes
    of it, parse() must return or raise ParseError."""
    from . import c10

    alph_name, n, first = arg
    alph = {"int": c10.ALPH_INT, "flt": c10.ALPH_FLT, "chr": c10.ALPH_CHR}[alph_name]
    st = Stats()
    for k in range(0, n):
        for rest in itertools.product(alph, repeat=k):
            s = first + "".join(rest)
            if "\n" in s:
                continue
            for tmpl in ("int x = %s ;", "void f(void) { g(a[%s], 1); }"):
                src = tmpl % s
                if _check_text(src, 4, 3, st, "noise", (src, "f.c")):
                    st.nontrivial += 1
            if len(st.failures) > 50:
                return st
    return st


LIT_OPENERS = ["'", '"', "L'", 'L"', "u8'", 'u8"', "U'", "<"]
LIT_PIECES = ["\\n", "\\0", "\\12", "\\x41", "\\q", "\\\\", "\\'", '\\"', "a", "\\u00e9", "\\xZ", "\\9", "?\\?", "%d", "\\\n"]


def long_literal_shard(arg):
    """Character constants, string literals and header-name look-alikes made of
    n copies of one piece (every escape form, bad escapes, plain characters),
    closed or left open, followed by each kind of continuation: whatever the
    lexer's error patterns make of them, parse() returns or raises a located
    ParseError within the CPU budget (10 s for at most a few kilobytes)."""
    opener, ns = arg
    closer = {"<": ">"}.get(opener, opener[-1])
    st = Stats()
    for piece in LIT_PIECES:
        for n in ns:
            for closed in (True, False):
                for tail in (";", "\n;", "", " x;", closer):
                    lit = opener + piece * n + (closer if closed else "")
                    for tmpl in ("char c = %s%s", "void f(void) { g(%s, 1)%s }"):
                        src = tmpl % (lit, tail)
                        if _check_text(src, 6, 3, st, "noise", (src, "f.c")):
                            st.nontrivial += 1
                        st.classes["long_literal.%s" % ("closed" if closed else "open")] += 1
                    if len(st.failures) > 1:
                        return st
    return st


def directive_shard(arg):
    """'#' lines of every shape: directive heads x line-number fields x file-name
    fields built from ordinary and hostile pieces (characters that Python's str
    predicates accept but int() or the C grammar do not, very long digit runs,
    unterminated strings), at the start, in the middle of a declaration and
    inside a function body."""
    seed, n = arg
    st = Stats()

    def piece(c, pool):
        s = c.choice(pool)
        if c.chance(0.3):
            i = c.below(len(s) + 1) if len(s) < 50 else c.below(50)
            s = s[:i] + c.choice(ODD) + s[i:]
        return s

    def body(c):
        head = c.choice(DIRECTIVE_HEADS)
        parts = [head]
        if c.chance(0.85):
            parts.append(piece(c, NUMBER_BITS))
        if c.chance(0.6):
            parts.append(c.choice([" ", "", "\t", "  "]))
            parts.append(piece(c, FILE_BITS))
        if c.chance(0.2):
            parts.append(c.choice([" ", ""]) + piece(c, NUMBER_BITS))
        line = "".join(parts)
        where = c.below(4)
        if where == 0:
            src = line + "\nint x;\n"
        elif where == 1:
            src = "int x;\n" + line + "\nint y;"
        elif where == 2:
            src = "int\n" + line + "\nx = 1;"
        else:
            src = "void f(void) {\n" + line + "\n x; }" + c.choice(["", "\n" + line])
        fname = c.choice(["f.c", "", "dir/f.c"])
        _oracle_text(src, 10, fname, st, "noise")
        st.classes["directive_lines"] += 1

    hyp_search(body, seed, n, st)
    return st



def noise_shard(arg):
    seed, n = arg
    st = Stats()

    def body(c):
        ln = c.int(1, 40)
        # half of the characters come from a C-flavoured subset so that the
        # noise gets past the first token reasonably often
        chars = []
        for _ in range(ln):
            if c.chance(0.04):
                chars.append(c.choice(ODD))
            elif c.chance(0.5):
                chars.append(c.choice(NOISE))
            else:
                chars.append(c.choice(["int ", "x", "(", ")", "{", "}", ";", "'", '"', "\\", "#", "1", ".", "*", "[", "]", "=", ",", "T ", "\n"]))
        src = "".join(chars)
        fname = c.choice(["f.c", ""])
        _oracle_text(src, ln, fname, st, "noise")

    hyp_search(body, seed, n, st)
    return st


def fuzz_shard(arg):
    """One coverage-guided campaign (atheris/libFuzzer, vlib/fuzz_parse.py).
    The child buckets failures instead of stopping; every bucket and every
    libFuzzer artifact is re-decided here with this module's own oracle."""
    from ..fuzzdrive import campaign_into

    st = Stats()

    def redecide(text, st, data):
        sub = Stats()
        _check_text(text, len(text.split()), 0, sub, "mutant", (text, "f.c"), cpu=60, files=FILES + _line_files(text))
        st.failures.extend(sub.failures)

    campaign_into(st, arg, "c06", redecide)
    return st


def fuzz_replay_shard(arg):
    """The committed corpus of earlier campaigns, decoded and decided without
    the fuzzer (seconds)."""
    import json

    from .. import fuzz_parse

    here, lo, hi = arg
    st = Stats()
    items = json.load(open(os.path.join(here, "corpus", "fuzz_c06.json")))[lo:hi]
    for hx in items:
        text = fuzz_parse.decode(bytes.fromhex(hx))
        if _check_text(text, len(text.split()), 0, st, "mutant", (text, "f.c"), files=FILES + _line_files(text)):
            st.nt(text)
        st.classes["fuzz_corpus_replayed"] += 1
    return st


def run(ctx):
    n = ctx.pick(3, 4)
    jobs = [(pi, first, n, "full") for pi in range(len(PREFIXES)) for first in ALPH]
    ctx.map(enum_shard, jobs, chunksize=2)
    bounds = {"token_sequences": "length<=%d over %d tokens x %d prefixes" % (n, len(ALPH), len(PREFIXES))}
    if not ctx.quick:
        jobs = [(pi, first, 5, "reduced") for pi in range(len(PREFIXES)) for first in ALPH_REDUCED]
        ctx.map(enum_shard, jobs, chunksize=1)
        bounds["token_sequences_reduced"] = "length<=5 over %d tokens x %d prefixes" % (len(ALPH_REDUCED), len(PREFIXES))
    bases()  # build before forking
    nmut = ctx.pick(2500, 40000)
    ctx.map(mutant_shard, [(s, nmut) for s in ctx.shard_seeds(16, 1)])
    ctx.map(splice_shard, [(s, ctx.pick(1500, 40000)) for s in ctx.shard_seeds(16, 4)])
    nnoise = ctx.pick(1500, 25000)
    ctx.map(noise_shard, [(s, nnoise) for s in ctx.shard_seeds(16, 2)])
    ctx.map(directive_shard, [(s, ctx.pick(600, 12000)) for s in ctx.shard_seeds(16, 9)])
    from . import c10

    from .. import reflex as _reflex
    from . import c02 as _c02

    ulen = len(_reflex.pp_tokens(_c02.POSITION_UNIT))
    ctx.map(sliding_shard, [(j, ctx.pick(120, 800)) for j in range(0, ulen, ctx.pick(2, 1))], chunksize=4)
    nlit = ctx.pick(4, 5)
    ctx.map(long_literal_shard, [(o, ctx.pick((3, 9, 17, 26, 40, 64, 300), (3, 9, 17, 26, 33, 40, 64, 128, 300, 5000))) for o in LIT_OPENERS])
    ctx.map(literal_shard, [(name, nlit, f) for name, alph in (("int", c10.ALPH_INT), ("flt", c10.ALPH_FLT), ("chr", c10.ALPH_CHR)) for f in alph])
    bounds["literal_strings"] = "length<=%d over the three literal alphabets of C10 x 2 positions" % nlit
    cj = os.path.join(ctx.here, "corpus", "fuzz_c06.json")
    if os.path.exists(cj):
        import json

        ncorp = len(json.load(open(cj)))
        step = max(1, (ncorp + 15) // 16)
        ctx.map(fuzz_replay_shard, [(ctx.here, lo, lo + step) for lo in range(0, ncorp, step)])
    from ..fuzzdrive import campaign_args

    ctx.map(fuzz_shard, campaign_args(ctx, 6, 20, 12000, 150000, 6))
    ctx.exhaustive = True
    ctx.extra["exhaustive_bounds"] = bounds
    ctx.extra["mutation_bases"] = len(bases())


def replay(subcheck, case):
    st = Stats()
    if subcheck == "tokens":
        pi, seq = case
        pre, pre_ntok = PREFIXES[pi]
        src = pre + " ".join(seq)
        _check_text(src, len(seq), pre_ntok, st, subcheck, case, files=FILES + _line_files(src))
    else:
        src, fname = case
        ntok = len(src.split())
        _check_text(src, ntok, 0, st, subcheck, case, cpu=60, filename=fname, files=(fname, "g.c") + _line_files(src))
    if st.failures:
        raise CheckFailure(**st.failures[0])
