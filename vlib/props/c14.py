"""C14 - node classes and tree traversal conform to _c_ast.cfg."""
import inspect
import io
import itertools
import os

from pycparser import c_ast

from .. import cmodel as M
from .. import gen
from ..corpus import corpus
from ..oracle import parse_outcome
from ..runner import CheckFailure, Stats, fail, hyp_search
from ..unitcheck import unit_text

ID = "C14"
RULE_EXTRA = (
    " Also: a traversal abandoned by an exception raised in a handler (at the first, the middle and the last interception), "
    "followed by reuse of the same visitor object on the same tree and on the first external declarations; a visitor whose "
    "handlers remove their node from the enclosing sequence while it is being traversed (on a deep copy)."
)
RULE = (
    "(a) exhaustive over the classes listed in _c_ast.cfg (read by an independent parser of the cfg format): for each class, "
    "instances built from sentinel values - attributes get unique strings, single children fresh ID sentinels or None in every "
    "subset, sequences None / [] / one / three sentinels - must have the cfg's constructor signature (+coord=None), __slots__, "
    "attr_names, children() (single children in order, then 'name[i]' sequences), iteration order; the module's class set must "
    "equal the cfg's. (b) every AST from the program generators and the corpus: a NodeVisitor without visit_X reaches exactly "
    "the preorder node list computed from the cfg; visitors with visit_X for a Hypothesis-chosen subset intercept exactly the "
    "nodes of those classes (two visitor subclasses used alternately on the same trees); show() with each flag combination "
    "prints one line per reachable node. Non-trivial: (a) instances with >= 1 absent optional child (distinct by construction); "
    "(b) ASTs with >= 15 node classes (distinct by hash of the source)." + RULE_EXTRA
    + " A quarter of the generated programs get a backslash appended to some pragma lines (class pragma_line_ending_in_backslash)."
)
ASSUMPTIONS = [
    "show() line count is not asserted for ASTs containing node-valued attributes (Decl.align with _Alignas, Pragma.string of _Pragma): known finding F29",
]


def read_cfg(path):
    out = []
    for line in open(path):
        line = line.split("#", 1)[0].strip()
        if not line:
            continue
        name, rest = line.split(":", 1)
        body = rest[rest.index("[") + 1 : rest.index("]")]
        out.append((name.strip(), [f.strip() for f in body.split(",") if f.strip()]))
    return out


def cfg():
    return read_cfg(os.path.join(os.environ.get("PYCPARSER_REPO", "/repo"), "pycparser", "_c_ast.cfg"))


def class_sweep(_):
    st = Stats()
    spec = cfg()
    names = {n for n, _f in spec}
    mod = {n for n in dir(c_ast) if isinstance(getattr(c_ast, n), type) and issubclass(getattr(c_ast, n), c_ast.Node) and n != "Node"}
    st.evaluations += 1
    if mod != names:
        st.failures.append(dict(subcheck="classes", case=("classes",), text="module vs cfg", detail="class sets differ: only in module %s, only in cfg %s" % (sorted(mod - names), sorted(names - mod)), sig="class-set"))
        return st
    for name, fields in spec:
        try:
            check_class(name, fields, st)
        except CheckFailure as f:
            st.failures.append(f.failure)
    st.notes["classes"] = len(spec)
    return st


def check_class(name, fields, st):
    cls = getattr(c_ast, name)
    clean = [f.rstrip("*") for f in fields]
    case = ("class", name)
    sig = list(inspect.signature(cls.__init__).parameters)
    if sig != ["self"] + clean + ["coord"]:
        fail("class", case, name, "constructor parameters %s, cfg says %s" % (sig, ["self"] + clean + ["coord"]), "signature")
    if inspect.signature(cls.__init__).parameters["coord"].default is not None:
        fail("class", case, name, "coord default is not None", "signature")
    if tuple(cls.__slots__) != tuple(clean + ["coord", "__weakref__"]):
        fail("class", case, name, "__slots__ %s" % (cls.__slots__,), "slots")
    attrs = [f for f in fields if not f.endswith("*")]
    if tuple(cls.attr_names) != tuple(attrs):
        fail("class", case, name, "attr_names %s, cfg says %s" % (cls.attr_names, attrs), "attr_names")
    singles = [f[:-1] for f in fields if f.endswith("*") and not f.endswith("**")]
    seqs = [f[:-2] for f in fields if f.endswith("**")]
    for present in itertools.product([False, True], repeat=len(singles)):
        for seqsel in itertools.product([None, 0, 1, 3], repeat=len(seqs)):
            kw = {}
            for a in attrs:
                kw[a] = "attr_" + a
            for s, pz in zip(singles, present):
                kw[s] = c_ast.ID("s_" + s) if pz else None
            for s, sel in zip(seqs, seqsel):
                kw[s] = None if sel is None else [c_ast.ID("%s%d" % (s, i)) for i in range(sel)]
            # positional construction in cfg order, coord by keyword
            node = cls(*[kw[f] for f in clean], coord="C")
            st.evaluations += 1
            expc = [(s, kw[s]) for s in singles if kw[s] is not None]
            for s in seqs:
                for i, ch in enumerate(kw[s] or []):
                    expc.append(("%s[%d]" % (s, i), ch))
            got = node.children()
            if tuple((n, id(c)) for n, c in got) != tuple((n, id(c)) for n, c in expc):
                fail("class", case, name, "children() = %r, expected %r (present=%s seq=%s)" % ([n for n, _ in got], [n for n, _ in expc], present, seqsel), "children")
            if [id(x) for x in node] != [id(c) for _, c in expc]:
                fail("class", case, name, "iteration order differs from children() (present=%s seq=%s)" % (present, seqsel), "iter")
            for f in clean:
                if getattr(node, f) is not kw[f]:
                    fail("class", case, name, "field %s holds %r" % (f, getattr(node, f)), "field")
            if node.coord != "C":
                fail("class", case, name, "coord not stored", "field")
            if not all(present) or any(s is None for s in seqsel):
                st.nontrivial += 1
    return st


# ---------------------------------------------------------------------------
_childfields = None


def childfields():
    global _childfields
    if _childfields is None:
        d = {}
        for n, fs in cfg():
            ch = [(f.rstrip("*"), f.endswith("**")) for f in fs if f.endswith("*")]
            d[n] = [x for x in ch if not x[1]] + [x for x in ch if x[1]]
        _childfields = d
    return _childfields


def preorder(n, acc):
    acc.append(n)
    for f, isseq in childfields()[type(n).__name__]:
        v = getattr(n, f)
        if isseq:
            for c in v or []:
                preorder(c, acc)
        elif v is not None:
            preorder(v, acc)
    return acc


class Rec(c_ast.NodeVisitor):
    def __init__(self):
        self.seen = []

    def generic_visit(self, n):
        self.seen.append(n)
        c_ast.NodeVisitor.generic_visit(self, n)


def has_node_valued_attr(ast):
    for n in preorder(ast, []):
        if isinstance(n, c_ast.Decl) and n.align:
            return True
        if isinstance(n, c_ast.Pragma) and isinstance(n.string, c_ast.Node):
            return True
        if isinstance(n, c_ast.TypeDecl) and n.align:
            return True
    return False


def check_traversal(ast, src, chosen_sets, case, st):
    acc = preorder(ast, [])
    v = Rec()
    v.visit(ast)
    if [id(x) for x in v.seen] != [id(x) for x in acc]:
        fail("traversal", case, src, "generic traversal visited %d nodes, the cfg preorder has %d (or the order differs)" % (len(v.seen), len(acc)), "generic-visit")
    for chosen in chosen_sets:
        counts = {}
        wrong = []

        def mk(c):
            def m(self, node):
                counts[c] = counts.get(c, 0) + 1
                if type(node).__name__ != c:
                    wrong.append((c, type(node).__name__))
                c_ast.NodeVisitor.generic_visit(self, node)

            return m

        V = type("V", (c_ast.NodeVisitor,), {"visit_" + c: mk(c) for c in chosen})
        vis = V()
        vis.visit(ast)
        exp = {}
        for x in acc:
            if type(x).__name__ in chosen:
                exp[type(x).__name__] = exp.get(type(x).__name__, 0) + 1
        if wrong or exp != counts:
            fail("traversal", case, src, "visit_X calls %r, expected %r, wrong-class calls %r (chosen %s)" % (counts, exp, wrong[:3], sorted(chosen)), "selective-visit")
        # the same visitor object used again gives the same counts
        counts.clear()
        vis.visit(ast)
        if exp != counts:
            fail("traversal", case, src, "second use of the same visitor: %r vs %r" % (counts, exp), "selective-visit")
    # visitor class hierarchies: A(NodeVisitor) intercepts S1, B(A) adds/overrides S2,
    # C(B) adds nothing; instances are used in the order A, B, A, C, B so that
    # anything cached for one class would show in another
    if len(chosen_sets) >= 2:
        s1, s2 = chosen_sets[0], chosen_sets[1]
        log = []

        def mk2(owner, c):
            def m(self, node):
                log.append((owner, c, type(node).__name__))
                c_ast.NodeVisitor.generic_visit(self, node)

            return m

        A = type("A", (c_ast.NodeVisitor,), {"visit_" + c: mk2("A", c) for c in s1})
        B = type("B", (A,), {"visit_" + c: mk2("B", c) for c in s2})
        C = type("C", (B,), {})

        def expected(kind):
            out = []
            for x in acc:
                nm = type(x).__name__
                if kind != "A" and nm in s2:
                    out.append(("B", nm, nm))
                elif nm in s1:
                    out.append(("A", nm, nm))
            return out

        for kind, cls in (("A", A), ("B", B), ("A", A), ("C", C), ("B", B)):
            del log[:]
            cls().visit(ast)
            if log != expected(kind):
                fail("traversal", case, src, "visitor hierarchy A<-B<-C, instance of %s: visit_X interceptions differ from the methods its class defines/inherits (got %d calls, expected %d; first got %r, first expected %r)" % (cls.__name__, len(log), len(expected(kind)), log[:2], expected(kind)[:2]), "visitor-hierarchy")
    # handlers supplied other than through the class body: attached to the
    # instance, or served by __getattr__ - "a visit_X method intercepts exactly the
    # nodes of class X" whichever way the visitor object provides it
    if chosen_sets:
        s1 = chosen_sets[0]
        s2 = chosen_sets[-1]

        class Plain(c_ast.NodeVisitor):
            pass

        def attach(vis, names, log):
            for nm in names:
                def h(node, nm=nm):
                    log.append((nm, type(node).__name__))
                    c_ast.NodeVisitor.generic_visit(vis, node)

                setattr(vis, "visit_" + nm, h)

        for names in (s1, s2, s1):
            log = []
            vis = Plain()
            attach(vis, names, log)
            vis.visit(ast)
            want = [(type(x).__name__, type(x).__name__) for x in acc if type(x).__name__ in names]
            if log != want:
                fail("traversal", case, src, "visit_X handlers attached to the visitor INSTANCE intercepted %d nodes, expected %d (two instances of one class with different handlers)" % (len(log), len(want)), "instance-handlers")

        class Dyn(c_ast.NodeVisitor):
            def __init__(self, names):
                self.names = names
                self.log = []

            def __getattr__(self, attr):
                if attr.startswith("visit_") and attr[6:] in self.names:
                    nm = attr[6:]

                    def h(node):
                        self.log.append((nm, type(node).__name__))
                        c_ast.NodeVisitor.generic_visit(self, node)

                    return h
                raise AttributeError(attr)

        dv = Dyn(s2)
        dv.visit(ast)
        want = [(type(x).__name__, type(x).__name__) for x in acc if type(x).__name__ in s2]
        if dv.log != want:
            fail("traversal", case, src, "visit_X handlers served by __getattr__ intercepted %d nodes, expected %d" % (len(dv.log), len(want)), "dynamic-handlers")
    # a traversal abandoned by an exception from a handler (the "raise Found"
    # idiom), then the same visitor object used again: on the same tree, on the
    # subtrees along the path to the raising node, on an unrelated subtree
    if chosen_sets:
        names = chosen_sets[0]
        hits = [x for x in acc if type(x).__name__ in names]
        if hits:
            class Found(Exception):
                pass

            class Bail(c_ast.NodeVisitor):
                def __init__(self):
                    self.log = []
                    self.stop_at = None

            def mk3(nm):
                def m(self, node):
                    self.log.append(id(node))
                    if self.stop_at is not None and len(self.log) == self.stop_at:
                        raise Found()
                    c_ast.NodeVisitor.generic_visit(self, node)

                return m

            for nm in names:
                setattr(Bail, "visit_" + nm, mk3(nm))
            bv = Bail()
            for stop in sorted({1, (len(hits) + 1) // 2, len(hits)}):
                bv.log = []
                bv.stop_at = stop
                try:
                    bv.visit(ast)
                    raised = False
                except Found:
                    raised = True
                if not raised or bv.log != [id(x) for x in hits[:stop]]:
                    fail("traversal", case, src, "a handler raising at interception %d of %d: %d interceptions before the exception reached the caller (raised=%s)" % (stop, len(hits), len(bv.log), raised), "abandoned-traversal")
                # reuse after the abandoned traversal
                roots = [ast] + [r for r in (getattr(ast, "ext", None) or [])[:3]]
                for root in roots:
                    sub_acc = preorder(root, [])
                    want = [id(x) for x in sub_acc if type(x).__name__ in names]
                    bv.log = []
                    bv.stop_at = None
                    bv.visit(root)
                    if bv.log != want:
                        fail("traversal", case, src, "visitor reused after a traversal that a handler abandoned with an exception (at interception %d of %d): %d interceptions on %s, expected %d" % (stop, len(hits), len(bv.log), type(root).__name__, len(want)), "reuse-after-exception")
    # a handler that edits the sequence it was reached through (the one-pass
    # "strip these nodes" visitor): every child that belonged to a node when its
    # traversal started is still reached exactly once
    if chosen_sets:
        import copy

        names = chosen_sets[0]
        cp = copy.deepcopy(ast)
        acc2 = preorder(cp, [])
        where = {}
        for n in acc2:
            for f, isseq in childfields()[type(n).__name__]:
                if isseq:
                    for ch in getattr(n, f) or []:
                        where[id(ch)] = getattr(n, f)
        victims = [n for n in acc2 if type(n).__name__ in names and id(n) in where]
        # (the parser puts ONE specifier node under every declarator of 'struct {..} a, b;':
        # a node reachable along two paths is legitimately gone the second time)
        if victims and len({id(x) for x in acc2}) == len(acc2):
            visited = []

            class Strip(c_ast.NodeVisitor):
                def visit(self, node):
                    visited.append(id(node))
                    return c_ast.NodeVisitor.visit(self, node)

            def mk4(nm):
                def m(self, node):
                    lst = where.get(id(node))
                    if lst is not None and node in lst:
                        lst.remove(node)
                    c_ast.NodeVisitor.generic_visit(self, node)

                return m

            for nm in names:
                setattr(Strip, "visit_" + nm, mk4(nm))
            Strip().visit(cp)
            if visited != [id(x) for x in acc2]:
                missing = len(set(id(x) for x in acc2) - set(visited))
                fail("traversal", case, src, "a visitor whose handlers remove their node from the enclosing sequence: %d visit() calls for %d nodes that were reachable when the traversal started (%d never visited, %d victims)" % (len(visited), len(acc2), missing, len(victims)), "mutating-visitor")
    if not has_node_valued_attr(ast):
        for flags in ({}, {"attrnames": True, "nodenames": True, "showcoord": True}, {"showemptyattrs": False}, {"nodenames": True, "offset": 3}):
            buf = io.StringIO()
            ast.show(buf=buf, **flags)
            nl = buf.getvalue().count("\n")
            if nl != len(acc):
                fail("traversal", case, src, "show(%s) printed %d lines for %d reachable nodes" % (flags, nl, len(acc)), "show-lines")
    else:
        st.excluded["show_part:node_valued_attribute(F29)"] += 1
    return len({type(x).__name__ for x in acc})


def random_shard(arg):
    seed, n = arg
    st = Stats()
    allnames = sorted(n for n, _ in cfg())

    def body(c):
        g = gen.G(c, quarantine=())
        tu = M.freshen(gen.gen_unit(g))
        src = unit_text(tu, "min")
        chosen_sets = [set(c.subset(allnames, 0.2)) or {"ID"}, set(c.subset(allnames, 0.5))]
        case = ("unit", tu, [sorted(s) for s in chosen_sets])
        if c.chance(0.25):
            # pragma lines that end in a backslash (whatever the parser makes of
            # them, the tree it returns has to obey the traversal rules)
            lines = src.split("\n")
            idx = [i for i, l in enumerate(lines) if l.lstrip().startswith("#") and "pragma" in l]
            if idx:
                for i in c.subset(idx, 0.6) or idx[:1]:
                    lines[i] += c.choice([" \\", "\\", " \\ "])
                src = "\n".join(lines)
                case = ("text", src, case[2])
                st.classes["pragma_line_ending_in_backslash"] += 1
        out = parse_outcome(src, "f.c", ("f.c",))
        st.evaluations += 1
        if out[0] != "ast":
            st.classes["rejected"] += 1
            return
        ncls = check_traversal(out[1], src, chosen_sets, case, st)
        if ncls >= 15:
            st.nt(src)
        st.classes["asts"] += 1
        if st.evaluations % 301 == 1:
            st.sample(src.split("\n", 1)[1][:300])

    hyp_search(body, seed, n, st)
    return st


def corpus_shard(arg):
    name, text = arg
    st = Stats()
    out = parse_outcome(text, "f.c", ("f.c",))
    st.evaluations += 1
    if out[0] != "ast":
        return st
    allnames = sorted(n for n, _ in cfg())
    sets = [set(allnames[::3]), set(allnames[1::2]), {"ID", "Decl", "TypeDecl", "FuncDef"}]
    try:
        ncls = check_traversal(out[1], "<corpus file %s>" % name, sets, ("text", text, [sorted(s) for s in sets]), st)
        if ncls >= 15:
            st.nt(name)
    except CheckFailure as f:
        st.failures.append(f.failure)
    return st


def run(ctx):
    ctx.map(class_sweep, [0])
    ctx.map(random_shard, [(s, ctx.pick(700, 8000)) for s in ctx.shard_seeds(16)])
    ctx.map(corpus_shard, corpus(big=not ctx.quick))
    ctx.exhaustive = True
    ctx.extra["exhaustive_bounds"] = "all classes of _c_ast.cfg x every subset of absent single children x {None, [], 1, 3} per sequence field"


def replay(subcheck, case):
    st = Stats()
    if case[0] == "class":
        fields = dict(cfg())[case[1]]
        check_class(case[1], fields, st)
        return
    if case[0] == "classes":
        r = class_sweep(0)
        if r.failures:
            raise CheckFailure(**r.failures[0])
        return
    if case[0] == "show":
        # the show() line rule without the node-valued-attribute exclusion (finding F29)
        out = parse_outcome(case[1], "f.c", ("f.c",))
        acc = preorder(out[1], [])
        buf = io.StringIO()
        out[1].show(buf=buf)
        nl = buf.getvalue().count("\n")
        if nl != len(acc):
            fail("traversal", case, case[1], "show() printed %d lines for %d reachable nodes" % (nl, len(acc)), "show-lines")
        return
    if case[0] == "unit":
        src = unit_text(M.freshen(case[1]), "min")
    else:
        src = case[1]
    out = parse_outcome(src, "f.c", ("f.c",))
    if out[0] == "ast":
        check_traversal(out[1], src, [set(s) for s in case[2]], case, st)
