"""C08 - regenerated C means the same as the original to a C compiler."""
import os
import shutil
import subprocess
import tempfile

from pycparser import c_generator

from .. import gcc, reflex, semgen
from ..corpus import corpus
from ..oracle import parse_outcome
from ..runner import CheckFailure, HarnessError, Stats, fail, hyp_search

ID = "C08"
RULE = (
    "Type-correct C99/C11 programs from the semantic generator (vlib/semgen.py; only those gcc -pedantic-errors accepts) and "
    "the preprocessed repository corpus files that gcc compiles: the text produced by CGenerator (both configurations on "
    "alternate programs) must be accepted by gcc and gcc -S -O0 and -O1 output must be byte-identical to the original's after "
    "dropping the .file/.ident lines; both texts are compiled in the same canonical layout (one token per line), because gcc "
    "-O0 places nops according to which statements share a source line. Nothing from pycparser takes part in the comparison. Non-trivial: the regenerated token "
    "sequence differs from the original's (parentheses, declaration splitting) and the program has >= 1 function with >= 3 "
    "statements; distinct by hash of the text. Never built by the typed generator (known findings, replayed separately): identifier "
    "array designators (F26), tag bodies with several declarators (F27), non-plain later for-init declarators (F21), "
    "_Atomic(T) beyond the simple form (F12*)."
    ' At -O0 a difference in nop instructions alone (line-table anchors that move with the braces the generator writes around a pragma run and its statement) is tolerated and counted; the -O1 comparison is exact. '
)
ASSUMPTIONS = ["gcc 12 is deterministic for identical token sequences; equality of -S output is the meaning of 'compiles to exactly the same code'"]
QUARANTINE = ("lit.escape_then_digit_across_pieces",)  # F39


def canon(text):
    """one token per line (directive lines kept): gcc -O0 places `nop`s and numbers
    labels according to which statements share a source LINE, so two texts are
    only comparable at -O0 when they are laid out the same way"""
    items = reflex.split_source(text)
    if items is None:
        return text
    return "\n".join(s for _k, s in items) + "\n"


def _without_nops(asm):
    return "\n".join(l for l in asm.split("\n") if l.strip() != "nop")


def compare(text, std, rp, d, st, case):
    """returns True when the comparison was carried out (gcc-valid, accepted)"""
    o = os.path.join(d, "o.c")
    with open(o, "w") as f:
        f.write(canon(text))
    errs = gcc.syntax_check([o], std)[o]
    st.evaluations += 1
    if errs:
        st.classes["generator_miss_gcc_rejects"] += 1
        return False
    out = parse_outcome(text, "f.c", ("f.c",))
    if out[0] != "ast":
        st.classes["pycparser_rejects(C01)"] += 1
        return False
    try:
        g = c_generator.CGenerator(reduce_parentheses=rp).visit(out[1])
    except Exception as e:  # noqa: BLE001
        fail("regen", case, text, "CGenerator raised %s" % type(e).__name__, "genexc:" + type(e).__name__)
    p = os.path.join(d, "g.c")
    with open(p, "w") as f:
        f.write(canon(g))
    for opt in ("-O0", "-O1"):
        a, ea = gcc.asm(o, std, opt)
        if a is None:
            raise HarnessError("gcc -S failed on a program it accepted with -fsyntax-only: %s" % ea)
        b, eb = gcc.asm(p, std, opt)
        if b is None:
            fail("regen", case, text, "regenerated text is rejected by gcc %s: %s\n--- regenerated ---\n%s" % (opt, eb, g[-1500:]), "regen-rejected")
        if a != b and opt == "-O0" and _without_nops(a) == _without_nops(b):
            # at -O0 gcc anchors line-table entries with `nop`s; where the generator
            # puts the braces of a Compound the parser built around a pragma run and
            # its statement ('do _Pragma("a") _Pragma("b") continue; while (x);'), one
            # such anchor more or less appears.  Not code: the -O1 comparison decides.
            st.classes["O0_differs_in_nops_only"] += 1
            continue
        if a != b:
            fail("regen", case, text, "gcc -S %s output differs between original and regenerated text\n--- regenerated ---\n%s" % (opt, g[-1500:]), "asm-differs" + opt)
    st.classes["compared"] += 1
    if reflex.pp_tokens(text.replace("\n#", "\n #")) != reflex.pp_tokens(g.replace("\n#", "\n #")):
        return "differs"
    return True


def sem_shard(arg):
    seed, n = arg
    st = Stats()
    d = tempfile.mkdtemp(prefix="c08_")

    def body(c):
        text, std, g = semgen.program(c, quarantine=QUARANTINE)
        rp = c.chance(0.5)
        r = compare(text, std, rp, d, st, ("text", text, std, rp))
        if r == "differs" and g.nstmts >= 3:
            st.nt(text)
        for f, k in g.excluded.items():
            st.excluded[f] += k
        if st.evaluations % 17 == 1 and len(st.samples) < 3:
            st.sample(text[len(semgen.PRE99) :][:400])

    try:
        hyp_search(body, seed, n, st, shrink_seconds=40.0)
    finally:
        shutil.rmtree(d, ignore_errors=True)
    return st


def corpus_shard(arg):
    name, text = arg
    st = Stats()
    d = tempfile.mkdtemp(prefix="c08c_")
    try:
        for std in ("c99", "c11"):
            try:
                r = compare(text, std, std == "c11", d, st, ("text", text, std, std == "c11"))
            except CheckFailure as f:
                f.failure["text"] = "<corpus file %s>" % name
                st.failures.append(f.failure)
                break
            if r:
                st.nt(name + std)
                st.classes["corpus_files_compared"] += 1
                break
    finally:
        shutil.rmtree(d, ignore_errors=True)
    return st


def run(ctx):
    if not gcc.have_gcc():
        raise HarnessError("gcc is required for C08")
    ctx.map(sem_shard, [(s, ctx.pick(12, 300)) for s in ctx.shard_seeds(16)])
    ctx.map(corpus_shard, corpus(big=False))


def replay(subcheck, case):
    _, text, std, rp = case
    d = tempfile.mkdtemp(prefix="c08r_")
    try:
        compare(text, std, rp, d, Stats(), case)
    finally:
        shutil.rmtree(d, ignore_errors=True)
