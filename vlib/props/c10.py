"""C10 - literals are accepted iff well-formed and classified by their spelling."""
import itertools
import re

from pycparser import c_ast, c_parser
from pycparser.c_lexer import CLexer

from .. import reflex
from ..runner import CheckFailure, Stats, fail, hyp_search

ID = "C10"
RULE = (
    "Exhaustive: every string of length <= N over three alphabets - integer (0 1 2 7 8 9 x X b B a f A F g u U l L), "
    "floating (0 1 9 . e E p P + - f F l L x a g) and character/string (' \" \\ a n x 0 8 u U L q ( ? / * blank newline) - N = 5 "
    "(quick) / 6 (thorough, character family 5 + sampled 6). Sandwich oracle: (i) a string that is a well-formed literal under "
    "the strict C99 reference comes back as exactly one token of that class, same spelling, no error; (ii) a string returned as "
    "one literal token without error is a literal of that class under the lenient reference (strict + 0b, u8/u/U, lenient "
    "escapes); (iii) malformed families (bad octal digits, '', unterminated character constant, escape outside the lenient set, "
    "comment openers) invoke the error callback. Through the parser: Constant.value is the spelling, Constant.type the type the "
    "suffix/prefix implies (multi-character constants: int). Hypothesis adds long literals from the 6.4.4/6.4.5 grammar and their "
    "single-character corruptions. Every accepted non-string literal is also parsed in 6 other positions and in 4 positions the parser "
    "reads twice (inside the type name of a compound literal); Hypothesis-generated runs of 1-4 adjacent string literals of one "
    "prefix family in 13 positions must give one Constant spelling prefix + all bodies in order. Non-trivial: strings that are literals under one reading or fall in a malformed family; "
    "distinct by construction."
)
ASSUMPTIONS = ["strict/lenient literal grammars of vlib/reflex.py; where the two readings disagree on the class ('\\08') either is accepted"]

ALPH_INT = list("0127 89xXbBafAFguUlL".replace(" ", "")) + ["\u0663"]  # + a decimal digit of another script
ALPH_FLT = list("019.eEpP+-fFlLxag") + ["\u0663"]
ALPH_CHR = list("'\"\\anx08uULq(? \n/*")

LITERAL_CLASSES = {
    "INT_CONST_DEC", "INT_CONST_OCT", "INT_CONST_HEX", "INT_CONST_BIN", "INT_CONST_CHAR", "FLOAT_CONST", "HEX_FLOAT_CONST",
    "CHAR_CONST", "WCHAR_CONST", "U8CHAR_CONST", "U16CHAR_CONST", "U32CHAR_CONST",
    "STRING_LITERAL", "WSTRING_LITERAL", "U8STRING_LITERAL", "U16STRING_LITERAL", "U32STRING_LITERAL",
}  # fmt: skip

_BAD_OCT = re.compile(r"0[0-7]*[89][0-9]*" + reflex.SUF)
_UNTERMINATED = re.compile(r"(?:L|u8|u|U)?'[^'\n]*\n?")
_QUOTED = re.compile(r"""(?:L|u8|u|U)?(['"])(.*)\1""", re.S)
_LENIENT_ESC_CHAR = set("abcdefghijklmnopqrstuvwxyzABCDEFGHIJKLMNOPQRSTUVWXYZ0123456789._~!=&^-\\?'\"")


CONTEXTS = [
    ("int a[%s];", ("ext", 0, "type", "dim")),
    ("void f(void){ g(%s); }", ("ext", 0, "body", "block_items", 0, "args", "exprs", 0)),
    ("enum { K = %s };", ("ext", 0, "type", "values", "enumerators", 0, "value")),
    ("void f(void){ switch (x) { case %s: ; } }", ("ext", 0, "body", "block_items", 0, "stmt", "block_items", 0, "expr")),
    ("struct B { int w : %s; };", ("ext", 0, "type", "decls", 0, "bitsize")),
    ("void f(int p[static %s]);", ("ext", 0, "type", "args", "params", 0, "type", "dim")),
]


# positions the parser reads twice (a parenthesised type name followed by '{' is
# parsed speculatively, then again as a compound literal): the literal must come
# out the same.  %s is the only constant of each text.
TWICE_PARSED = [
    "void f(void){ (char[sizeof(%s)]){x}; }",
    "int n = sizeof (char[sizeof %s]){x};",
    "void f(void){ (struct { int m : %s; }){x}; }",
    "void f(void){ g((int[%s]){x}, (T)y); }",
]
STRING_POSITIONS = [
    "char *s = %s;",
    "void f(void){ g(%s); }",
    "int n = sizeof(%s);",
    "int n = sizeof %s;",
    "_Static_assert(x, %s);",
    "struct Q { int m; _Static_assert(x, %s); };",
    "void f(void){ (struct { int m; _Static_assert(x, %s); }){x}; }",
    "void f(void){ y = (int(*)[sizeof(%s)])p; }",
    "void f(void){ y = %s[x]; }",
] + TWICE_PARSED
STRING_BODIES = ["", "a", "ab", "cd", "%d", "\\n", "\\\\", "\\\"", "\\x41", "\\101", "a b", "/*", "//", "'", "?", "\\0", "C:\\\\dir"]
STRING_PREFIXES = ["", "L", "u8", "u", "U"]


def constants_of(ast):
    out = []
    stack = [ast]
    while stack:
        n = stack.pop()
        if isinstance(n, c_ast.Constant):
            out.append((n.type, n.value))
        if isinstance(n, c_ast.Node):
            for s_ in n.__slots__:
                if s_ not in ("coord", "__weakref__"):
                    stack.append(getattr(n, s_))
        elif isinstance(n, (list, tuple)):
            stack.extend(n)
    return out


def concat_shard(arg):
    """Adjacent string literals of one prefix family become ONE Constant whose
    spelling is the first literal's prefix and quote, all bodies in order, and the
    closing quote - wherever the sequence stands."""
    seed, n = arg
    st = Stats()

    def body(c):
        pre = c.choice(STRING_PREFIXES)
        k = c.int(1, 4)
        bodies = [c.choice(STRING_BODIES) for _ in range(k)]
        lits = ['%s"%s"' % (pre, b) for b in bodies]
        seq = c.choice([" ", "", "\n", "  "]).join(lits) if k > 1 else lits[0]
        tmpl = c.choice(STRING_POSITIONS)
        src = "typedef int T; " + tmpl % seq
        st.evaluations += 1
        case = ("concat", src)
        want = '%s"%s"' % (pre, "".join(bodies))
        try:
            ast = c_parser.CParser().parse(src, "f.c")
        except Exception as e:  # noqa: BLE001
            fail("constant-node", case, src, "adjacent string literals rejected: %s: %s" % (type(e).__name__, e), "parser-rejects-concat")
        got = constants_of(ast)
        if got != [("string", want)]:
            fail("constant-node", case, src, "Constant nodes %r, the literals spell (%r, %r)" % (got[:3], "string", want), "concat-value")
        if k > 1:
            st.nt(src)
        st.classes["concat_in_twice_parsed_position" if tmpl in TWICE_PARSED else "concat_elsewhere"] += 1

    hyp_search(body, seed, n, st)
    return st


PREFIX_NAMES = ("L", "u", "U", "u8")


def lex(s, typedef_prefixes=False):
    errs = []
    lx = CLexer(lambda m, l, c: errs.append(m), lambda: None, lambda: None, (lambda n: n in PREFIX_NAMES) if typedef_prefixes else (lambda n: False))
    lx.input(s)
    toks = []
    for _ in range(len(s) + 3):
        t = lx.token()
        if t is None:
            break
        toks.append((t.type, t.value))
    return toks, errs


def malformed_family(s):
    """name of the malformed-literal family s belongs to, or None"""
    if _BAD_OCT.fullmatch(s):
        return "bad_octal"
    if s in ("''", "L''", "u''", "U''", "u8''"):
        return "empty_char"
    if "'" in s and '"' not in s and _UNTERMINATED.fullmatch(s) and "\\" not in s:
        return "unterminated_char"
    m = _QUOTED.fullmatch(s)
    if m and "\n" not in s:
        body = m.group(2)
        q = m.group(1)
        # walk the body: a backslash followed by a character outside the lenient set
        i = 0
        bad = False
        closed_early = False
        while i < len(body):
            ch = body[i]
            if ch == "\\":
                if i + 1 >= len(body):
                    bad = None  # backslash escapes the closing quote: not this family
                    break
                if body[i + 1] not in _LENIENT_ESC_CHAR:
                    bad = True
                i += 2
                continue
            if ch == q:
                closed_early = True
                break
            i += 1
        if bad and not closed_early:
            return "bad_escape"
    if ("/*" in s or "//" in s) and "'" not in s and '"' not in s:
        return "comment"
    return None


def expected_type(cls, s):
    if cls == "INT_CONST_CHAR":
        return "int"
    if cls.startswith("INT_CONST"):
        return reflex.int_type(s)
    if cls in ("FLOAT_CONST", "HEX_FLOAT_CONST"):
        return reflex.float_type(s)
    if cls.endswith("CHAR_CONST"):
        return "char"
    return "string"


def check_string(s, st, via_parser=True):
    st.evaluations += 1
    toks, errs = lex(s)
    if s[:1] in "uUL":
        # literals are classified by their spelling: a typedef that happens to be
        # named like an encoding prefix changes nothing about a prefixed literal
        toks_t, errs_t = lex(s, True)
        if (errs_t, [(("ID" if t == "TYPEID" else t), v) for t, v in toks_t]) != (errs, toks):
            fail("accepted-lenient", s, s, "with typedefs named L/u/U/u8 in scope the text lexes as %r errors=%r, without them as %r errors=%r" % (toks_t[:4], errs_t[:2], toks[:4], errs[:2]), "prefix-typedef")
    single = len(toks) == 1 and not errs and toks[0][1] == s and toks[0][0] in LITERAL_CLASSES
    got = toks[0][0] if single else None
    strict = reflex.classify(s, lenient=False)
    lenient = reflex.classify(s, lenient=True)
    fam = malformed_family(s)
    case = s
    if strict:
        if not single or got not in (strict | lenient):
            fail("strict-accepted", case, s, "well-formed C99 literal (%s) lexed as %r errors=%r" % (sorted(strict), toks[:4], errs[:2]), "strict-not-accepted:" + sorted(strict)[0])
    if single and got not in lenient:
        fail("accepted-lenient", case, s, "returned as one %s token but the lenient grammar says %s" % (got, sorted(lenient) or "not a literal"), "accepted-not-literal:" + got)
    if fam and not errs and not strict and not lenient:
        fail("malformed-error", case, s, "malformed literal (family %s) lexed without error as %r" % (fam, toks[:4]), "malformed-silent:" + fam)
    nontrivial = bool(strict or lenient or fam)
    if single and via_parser and "\n" not in s:
        try:
            ast = c_parser.CParser().parse("int x = %s ;" % s, "f.c")
        except Exception as e:  # noqa: BLE001
            fail("constant-node", case, s, "accepted literal rejected by the parser: %s: %s" % (type(e).__name__, e), "parser-rejects")
        node = ast.ext[0].init
        if not isinstance(node, c_ast.Constant) or node.value != s:
            fail("constant-node", case, s, "Constant.value is %r" % (getattr(node, "value", node),), "constant-value")
        want = expected_type(got, s)
        if node.type != want:
            fail("constant-node", case, s, "Constant.type is %r, the spelling implies %r" % (node.type, want), "constant-type")
        # the same literal in other syntactic positions: same Constant
        if not got.endswith("LITERAL"):
            for tmpl, path in CONTEXTS:
                try:
                    a2 = c_parser.CParser().parse(tmpl % s, "f.c")
                except Exception as e:  # noqa: BLE001
                    fail("constant-node", case, s, "accepted literal rejected in %r: %s" % (tmpl % s, e), "parser-rejects")
                n2 = a2
                for p_ in path:
                    n2 = n2[p_] if isinstance(p_, int) else getattr(n2, p_)
                if not isinstance(n2, c_ast.Constant) or n2.value != s or n2.type != want:
                    fail("constant-node", case, s, "in %r the Constant is (%r, %r), the spelling implies (%r, %r)" % (tmpl % s, getattr(n2, "type", None), getattr(n2, "value", None), want, s), "constant-type-context")
        for tmpl in TWICE_PARSED:
            try:
                a2 = c_parser.CParser().parse("typedef int T; " + tmpl % s, "f.c")
            except Exception as e:  # noqa: BLE001
                fail("constant-node", case, s, "accepted literal rejected in %r: %s" % (tmpl % s, e), "parser-rejects")
            got2 = constants_of(a2)
            if got2 != [(want, s)]:
                fail("constant-node", case, s, "in %r the Constant nodes are %r, the spelling implies %r" % (tmpl % s, got2[:3], (want, s)), "constant-type-context")
    return nontrivial


def enum_shard(arg):
    alph_name, n, first = arg
    alph = {"int": ALPH_INT, "flt": ALPH_FLT, "chr": ALPH_CHR}[alph_name]
    st = Stats()
    for rest in itertools.product(alph, repeat=n - 1):
        s = first + "".join(rest)
        try:
            if check_string(s, st):
                st.nontrivial += 1
                if st.nontrivial % 2003 == 1:
                    st.sample(s)
        except CheckFailure as f:
            st.failures.append(f.failure)
            if len(st.failures) > 30:
                return st
    return st


DIG = "0123456789"
HEX = "0123456789abcdefABCDEF"
ISUF = ["", "u", "U", "l", "L", "ul", "uL", "Ul", "UL", "lu", "lU", "Lu", "LU", "ll", "LL", "ull", "uLL", "Ull", "ULL", "llu", "llU", "LLu", "LLU"]
FSUF = ["", "f", "F", "l", "L"]
SIMPLE_ESC = ["\\n", "\\t", "\\\\", "\\'", '\\"', "\\?", "\\a", "\\0", "\\12", "\\123", "\\x41", "\\xfF0", "\\v"]


def gen_literal(c):
    k = c.below(8)

    def digits(alpha, lo, hi):
        return "".join(c.choice(alpha) for _ in range(c.int(lo, hi)))

    if k == 0:
        return c.choice("123456789") + digits(DIG, 0, 20) + c.choice(ISUF)
    if k == 1:
        return "0" + digits("01234567", 0, 20) + c.choice(ISUF)
    if k == 2:
        return c.choice(["0x", "0X"]) + digits(HEX, 1, 18) + c.choice(ISUF)
    if k == 3:
        form = c.below(3)
        exp = (c.choice("eE") + c.choice(["", "+", "-"]) + digits(DIG, 1, 4)) if c.chance(0.5) else ""
        if form == 0:
            return digits(DIG, 0, 8) + "." + digits(DIG, 1, 8) + exp + c.choice(FSUF)
        if form == 1:
            return digits(DIG, 1, 8) + "." + exp + c.choice(FSUF)
        return digits(DIG, 1, 8) + c.choice("eE") + c.choice(["", "+", "-"]) + digits(DIG, 1, 4) + c.choice(FSUF)
    if k == 4:
        form = c.below(3)
        m = [digits(HEX, 1, 8), digits(HEX, 0, 6) + "." + digits(HEX, 1, 6), digits(HEX, 1, 6) + "."][form]
        return c.choice(["0x", "0X"]) + m + c.choice("pP") + c.choice(["", "+", "-"]) + digits(DIG, 1, 4) + c.choice(FSUF)
    if k == 5:
        body = c.choice(SIMPLE_ESC + list("az09 !#%&()*+,-./:;<=>[]^_{|}~\"")) if c.chance(0.8) else "".join(c.choice(["a", "b", "\\n"]) for _ in range(c.int(2, 4)))
        return c.choice(["", "", "L"]) + "'" + body + "'"
    if k == 6:
        n = c.int(0, 30)
        body = "".join(c.choice(SIMPLE_ESC + list("abc xyz019 !#%&()*+,-./:;<=>?[]^_{|}~'")) for _ in range(n))
        return c.choice(["", "", "L"]) + '"' + body + '"'
    return c.choice(["0b", "0B"]) + digits("01", 1, 30) + c.choice(ISUF)


CORRUPT = list("0189xXeEpP.+-uUlLfFg'\"\\ n(") + ["\n"]


def random_shard(arg):
    seed, n = arg
    st = Stats()

    def body(c):
        s = gen_literal(c)
        if c.chance(0.5):
            i = c.below(len(s) + 1)
            op = c.below(3)
            if op == 0 and s:
                s = s[:i] + s[i + 1 :]
            elif op == 1:
                s = s[:i] + c.choice(CORRUPT) + s[i:]
            elif s:
                i = min(i, len(s) - 1)
                s = s[:i] + c.choice(CORRUPT) + s[i + 1 :]
            st.classes["corrupted"] += 1
        if not s:
            s = "0"
        if check_string(s, st):
            st.nt(s)
        if st.evaluations % 499 == 1:
            st.sample(s)

    hyp_search(body, seed, n, st)
    return st


def run(ctx):
    n = ctx.pick(5, 6)
    jobs = []
    for name, alph in (("int", ALPH_INT), ("flt", ALPH_FLT), ("chr", ALPH_CHR)):
        nn = n if not (name == "chr" and n == 6) else 6
        for k in range(1, nn + 1):
            jobs += [(name, k, f) for f in alph]
    # biggest jobs first
    jobs.sort(key=lambda j: -j[1])
    ctx.map(enum_shard, jobs)
    ctx.map(random_shard, [(s, ctx.pick(2000, 40000)) for s in ctx.shard_seeds(16)])
    ctx.map(concat_shard, [(s, ctx.pick(400, 8000)) for s in ctx.shard_seeds(16, 5)])
    ctx.exhaustive = True
    ctx.extra["exhaustive_bounds"] = "all strings of length <= %d over the integer (%d chars), floating (%d) and character/string (%d) alphabets" % (n, len(ALPH_INT), len(ALPH_FLT), len(ALPH_CHR))


def replay(subcheck, case):
    if isinstance(case, tuple) and case[0] == "concat":
        src = case[1]
        ast = c_parser.CParser().parse(src, "f.c")
        # the expected spelling from the text itself: the reference tokenizer's string tokens
        toks = [t for t in reflex.pp_tokens(src) if t.endswith('"') and len(t) >= 2]
        pre = toks[0][: toks[0].index('"')]
        want = pre + '"' + "".join(t[t.index('"') + 1 : -1] for t in toks) + '"'
        got = constants_of(ast)
        if got != [("string", want)]:
            fail("constant-node", case, src, "Constant nodes %r, the literals spell %r" % (got[:3], want), "concat-value")
        return
    check_string(case, Stats())
