"""Drives one atheris/libFuzzer campaign (vlib/fuzz_parse.py) as a child
process and hands back its counters, its failure buckets and any libFuzzer
artifact (crash-*, timeout-*).  Everything lives in a temporary directory that
is removed before returning; the committed seed corpus is a JSON list of hex
strings (corpus/fuzz_*.json)."""
import json
import os
import shutil
import subprocess
import sys
import tempfile


def atheris_path(here):
    """Directory to put on PYTHONPATH so that `import atheris` works for
    sys.executable, or None.  Installs the wheel from the offline wheelhouse
    into <here>/.deps when it is missing (setup_cmd normally did that)."""
    cands = [os.path.join(here, ".deps"), "/verif/.deps"]
    for d in cands:
        if os.path.isdir(os.path.join(d, "atheris")):
            return d
    try:
        import atheris  # noqa: F401

        return ""
    except Exception:  # noqa: BLE001
        pass
    d = cands[0]
    try:
        subprocess.run([sys.executable, "-m", "pip", "install", "-q", "--no-index", "--find-links", "/opt/veriftools/wheels", "--target", d, "atheris"],
                       capture_output=True, timeout=300)  # fmt: skip
    except Exception:  # noqa: BLE001
        return None
    return d if os.path.isdir(os.path.join(d, "atheris")) else None


def run_campaign(module, here, repo, seed, runs, corpus_json=None, max_len=64, timeout_s=20, wall_limit=3600, mode="c06"):
    """Returns dict(available, stats, artifacts=[bytes...], rc, tail)."""
    dep = atheris_path(here)
    if dep is None:
        return dict(available=False)
    tmp = tempfile.mkdtemp(prefix="fz_")
    try:
        work = os.path.join(tmp, "corpus")
        os.mkdir(work)
        art = os.path.join(tmp, "art")
        os.mkdir(art)
        dirs = [work]
        if corpus_json and os.path.exists(corpus_json):
            seeds = os.path.join(tmp, "seeds")
            os.mkdir(seeds)
            for i, hx in enumerate(json.load(open(corpus_json))):
                with open(os.path.join(seeds, "%05d" % i), "wb") as f:
                    f.write(bytes.fromhex(hx))
            dirs.append(seeds)
        stats = os.path.join(tmp, "stats.json")
        env = dict(os.environ)
        env["PYTHONPATH"] = os.pathsep.join([p for p in (repo, here, dep) if p])
        env["PYTHONHASHSEED"] = "0"
        env["VERIF_FUZZ_STATS"] = stats
        env["VERIF_FUZZ_MODE"] = mode
        cmd = [os.path.join(here, *module.split(".")) + ".py"] + dirs + [
            "-seed=%d" % (seed % (2**31 - 1) or 1), "-runs=%d" % runs, "-max_len=%d" % max_len, "-timeout=%d" % timeout_s,
            "-artifact_prefix=" + art + os.sep, "-print_final_stats=1", "-rss_limit_mb=4096",
        ]  # fmt: skip
        try:
            p = subprocess.run(cmd, cwd=here, env=env, capture_output=True, timeout=wall_limit)
            rc, tail = p.returncode, p.stderr.decode("latin-1")[-1500:]
        except subprocess.TimeoutExpired as e:
            rc, tail = -9, "wall limit reached: " + (e.stderr or b"").decode("latin-1")[-500:]
        st = None
        if os.path.exists(stats):
            st = json.load(open(stats))
            for line in tail.splitlines():
                # the child's last periodic dump may be up to a second old
                if line.startswith("stat::number_of_executed_units:"):
                    st["execs"] = max(st["execs"], int(line.split(":")[-1]))
        arts = []
        for n in sorted(os.listdir(art)):
            with open(os.path.join(art, n), "rb") as f:
                arts.append((n, f.read()))
        cov = None
        for line in tail.splitlines():
            if "cov:" in line:
                try:
                    cov = int(line.split("cov:")[1].split()[0])
                except ValueError:
                    pass
        corpus = []
        for n in sorted(os.listdir(work)):
            with open(os.path.join(work, n), "rb") as f:
                corpus.append(f.read())
        return dict(available=True, stats=st, artifacts=arts, rc=rc, tail=tail, cov=cov, corpus=corpus)
    finally:
        shutil.rmtree(tmp, ignore_errors=True)


def campaign_into(st, arg, mode, redecide):
    """Shared body of the per-property fuzz shards.  arg = (idx, seed, runs,
    seeded, max_len, here, repo).  redecide(text, st, data) re-checks one bucket text
    with the property's own oracle and appends to st.failures."""
    from . import fuzz_parse

    idx, seed, runs, seeded, max_len, here, repo = arg
    r = run_campaign("vlib.fuzz_parse", here, repo, seed, runs, os.path.join(here, "corpus", "fuzz_c06.json") if seeded else None, max_len=max_len, mode=mode)
    if not r.get("available"):
        st.classes["fuzz_campaigns_skipped_no_atheris"] += 1
        return r
    s = r.get("stats")
    if s is None:
        st.failures.append(dict(subcheck="harness", case=("fuzz", idx), text="", detail="fuzz campaign wrote no statistics (rc=%s): %s" % (r["rc"], r["tail"][-300:]), sig="harness-fuzz"))
        return r
    st.evaluations += s["execs"]
    st.nontrivial += s["nontrivial"]
    st.classes["fuzz_execs"] += s["execs"]
    st.classes["fuzz_accepted"] += s["accepted"]
    st.classes["fuzz_rejected_with_location"] += s["rejected"]
    st.classes["fuzz_distinct_texts"] += s["distinct_texts"]
    st.classes["fuzz_campaigns_seeded" if seeded else "fuzz_campaigns_empty_corpus"] += 1
    st.classes["fuzz_corpus_entries"] += len(r["corpus"])
    for k, v in s.get("excluded", {}).items():
        st.excluded["fuzz:" + k] += v
    for x in s["samples"][:2]:
        st.sample(x)
    texts = [(b["text"], bytes.fromhex(b["data"])) for b in s["buckets"].values()]
    if mode == "c06":
        texts += [(fuzz_parse.decode(data), data) for _, data in r["artifacts"]]
    for text, data in texts[:200]:
        st.classes["fuzz_buckets_redecided"] += 1
        redecide(text, st, data)
    if r["rc"] != 0 and not texts:
        st.classes["fuzz_campaigns_ended_abnormally"] += 1
        st.notes["fuzz_campaign_%d" % idx] = "ended with rc=%s without a reproducible input: %s" % (r["rc"], r["tail"][-200:])
    if os.environ.get("VERIF_FUZZ_KEEP"):
        with open(os.path.join(os.environ["VERIF_FUZZ_KEEP"], "corpus_%d.json" % idx), "w") as f:
            json.dump([c.hex() for c in r["corpus"]], f)
    return r


def campaign_args(ctx, n_quick, n_thorough, runs_quick, runs_thorough, salt):
    runs = ctx.pick(runs_quick, runs_thorough)
    return [(i, ctx.seed * 131 + salt * 17 + i, runs, i % 2 == 0, 64 if i % 4 < 2 else 160, ctx.here, ctx.repo) for i in range(ctx.pick(n_quick, n_thorough))]
