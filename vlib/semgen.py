"""Semantic-profile generator (DESIGN.md 2.3): a typed builder over a small
universe that only produces well-typed, constraint-respecting C99/C11
programs.  gcc decides whether the builder succeeded; programs gcc rejects are
counted as generator misses and never used.  Every decision goes through a
Chooser.  No double-underscore keywords are produced."""
import collections

PRE99 = """typedef int T; typedef unsigned long UL;
struct S { int m; double d; int a[3]; struct S *next; unsigned bf : 3; unsigned : 0; int bg : 5; };
union U { int i; double f; };
enum E { E0, E1 = 5, E2 };
int ga[4] = { 1, 2, [3] = 4 }; int gi = 3; double gd = 1.5; struct S gs = { .m = 1, .a = { 1, 2 } }; struct S *gsp = &gs; union U gu = { 2 }; int *gp = &gi; char gc = 'c'; unsigned gu2 = 7u; long gl = 9L;
static int h0(int a, int b) { return a + b; }
static double h1(double x) { return x * 2.0; }
static struct S h2(int a) { struct S r = { a, 0.5, { 0 }, 0, 1 }; return r; }
static int (*gfp)(int, int) = h0;
static int h3(int n, int v[n]) { return v[0] + n; }
static int h4(int n, int v[static 2]) { return v[1] + n; }
static int h5(int v[const restrict 3], ...) { return v[2]; }
extern int h6(int n, int m[*][n]);
static void h7(int (*cb)(int, int), int *restrict out) { *out = cb(1, 2); }
static long long gll = 1LL << 40; static unsigned long long gull = 3ULL; static long double gld = 2.5L; static signed char gsc = -1; static unsigned short gus = 9;
static int *volatile gvp = &gi; static const volatile int gcv = 4; static int *const gcp = &gi; static volatile int *gpv = &gi;
static int h8(void) { return (int)(gll >> 38) + (int)gull + (int)gld + gsc + gus + *gvp + gcv + *gcp + *gpv; }
"""
PRE11 = """struct A11 { int x; struct { int ax; int ay; }; union { int au; float av; }; };
static struct A11 ga11 = { 1, { 2, 3 }, { 4 } };
_Static_assert(sizeof(int) >= 2, "int" " size");
static _Thread_local int gtl = 1;
_Alignas(16) static int gal16 = 0; _Alignas(double) static char galc;
static _Atomic int gat = 0; static _Atomic(int) gat2 = 0;
static _Noreturn void hnr(void) { for (;;) ; }
static inline _Noreturn void hnr2(void) { hnr(); }
"""

INT_LITS = [
    "0", "1", "2", "7", "10u", "3L", "0x1F", "017", "'a'", "E1", "E2", "1ULL", "4lu", "5LLu", "6uLL", "8Ul", "0X7fL", "'\\n'", "'\\x41'", "'\\0'",
    "(int)sizeof(int)", "(int)sizeof(struct S)",
]  # fmt: skip
INT_LITS11 = ["(int)_Alignof(double)", "u'a'", "U'b'", "(int)_Alignof(struct S)"]
DBL_LITS = ["1.0", "2.5f", ".5", "1e2", "0x1p3", "3.L", "1.e-1", "0x1.8p1f", "2E+1F", "7.l"]


class SG:
    def __init__(self, c, c11, quarantine=()):
        self.c = c
        self.c11 = c11
        self.q = set(quarantine)
        self.k = 0
        self.scopes = [{"gi": "int", "gd": "double", "gl": "long"}]
        self.consts = set()
        self.labels = []
        self.loop = 0
        self.sw = 0
        self.features = collections.Counter()
        self.excluded = collections.Counter()
        self.nstmts = 0

    def on(self, feature, p=None):
        if p is not None and not self.c.chance(p):
            return False
        if feature in self.q:
            self.excluded[feature] += 1
            return False
        self.features[feature] += 1
        return True

    def fresh(self, p="v"):
        self.k += 1
        return "%s%d" % (p, self.k)

    def vars(self, ty, writable=False):
        return [n for sc in self.scopes for n, t in sc.items() if t == ty and not (writable and n in self.consts)]

    def P(self, x):
        return "(" + x + ")"

    # -- expressions
    def ilit(self):
        pool = INT_LITS + (INT_LITS11 if self.c11 else [])
        return self.c.choice(pool)

    def lv_int(self, d):
        c = self.c
        cand = []
        v = self.vars("int", writable=True)
        if v:
            cand += [c.choice(v)] * 3
        ix = (lambda: self.e_int(d - 1)) if d > 0 else (lambda: c.choice(["0", "1", "2"]))
        cand += ["gs.m", "gsp->m", "gu.i", "ga[%s & 3]" % ix(), "(*gp)", "gs.a[1]", "gs.a[%s & 1]" % ix(), "gsp->next->m"]
        if self.c11:
            cand += ["ga11.ax", "ga11.au"]
        a = self.vars("int*")
        if a:
            cand.append("*" + c.choice(a))
            cand.append(c.choice(a) + "[0]")
        return c.choice(cand)

    def e_int(self, d):
        c = self.c
        if d <= 0 or c.chance(0.25):
            return c.choice([self.ilit(), self.lv_int(0), self.ilit()])
        k = c.below(26)
        e = lambda: self.e_int(d - 1)  # noqa: E731
        if k < 5:
            op = c.choice(["+", "-", "*", "/", "%", "<<", ">>", "&", "|", "^", "&&", "||", "==", "!=", "<", ">", "<=", ">="])
            if self.c.chance(0.5):
                return "%s %s %s" % (self.P(e()), op, self.P(e()))
            return "%s %s %s" % (self.atom(d), op, self.atom(d))
        if k == 5:
            return c.choice(["-", "+", "~", "!"]) + self.P(e())
        if k == 6:
            return "%s ? %s : %s" % (self.P(e()), e(), self.P(e()))
        if k == 7:
            return "(%s, %s)" % (e(), e())
        if k == 8:
            return "(%s %s %s)" % (self.lv_int(d), c.choice(["=", "+=", "-=", "*=", "/=", "%=", "<<=", ">>=", "&=", "|=", "^="]), e())
        if k == 9:
            return c.choice(["%s++", "%s--", "++%s", "--%s"]) % self.lv_int(d)
        if k == 10:
            return "h0(%s, %s)" % (e(), e())
        if k == 11:
            return c.choice(["gfp", "(*gfp)", "(gfp)", "(**gfp)"]) + "(%s, %s)" % (e(), e())
        if k == 12:
            return "(int)" + self.P(self.e_dbl(d - 1))
        if k == 13:
            return "(int)sizeof(%s)" % c.choice(["int", "T", "struct S", "int[3]", "int *", "union U", "struct S *", "UL", "int (*)(int, int)", "const volatile T * const *", "enum E", "long long unsigned"])
        if k == 14:
            return "(int)sizeof %s" % self.P(e())
        if k == 15:
            return "h2(%s).m" % e()
        if k == 16:
            return "(int)(%s - %s)" % (self.e_ptr(d - 1), self.e_ptr(d - 1))
        if k == 17:
            return "(%s == %s)" % (self.e_ptr(d - 1), self.e_ptr(d - 1))
        if k == 18:
            return "(int){%s}" % e()
        if k == 19:
            return c.choice(["((struct S){.m = %s, .d = 1.0}).m", "(struct S){.m = %s, .d = 1.0}.m", "(int[]){1, %s, 3}[1]", "(int)sizeof (int){%s}"]) % e()
        if k == 20:
            return "(T)(UL)%s" % self.P(e())
        if k == 21:
            return "h3(2, (int[]){%s, 2})" % e()
        if k == 22:
            return "h4(1, ga) + h5(ga, %s)" % e()
        if k == 23:
            return "(int)gs.bf + (gs.bg = %s & 7)" % self.P(e())
        if k == 24:
            return "(int)(gc + gu2 + gl)"
        return "*" + self.P(self.e_ptr(d - 1))

    def atom(self, d):
        return self.c.choice([self.ilit(), self.lv_int(0), "h0(1, 2)", "ga[1]", "gs.m", "-" + self.ilit() if False else self.ilit()])

    def e_dbl(self, d):
        c = self.c
        if d <= 0 or c.chance(0.3):
            return c.choice(DBL_LITS + ["gd", "gs.d", "gu.f"] + self.vars("double"))
        k = c.below(6)
        e = lambda: self.e_dbl(d - 1)  # noqa: E731
        if k == 0:
            return "%s %s %s" % (self.P(e()), c.choice("+-*/"), self.P(e()))
        if k == 1:
            return "-" + self.P(e())
        if k == 2:
            return "h1(%s)" % e()
        if k == 3:
            return "(double)" + self.P(self.e_int(d - 1))
        if k == 4:
            return "%s ? %s : %s" % (self.P(self.e_int(d - 1)), e(), self.P(e()))
        return "(gd = %s)" % e()

    def e_ptr(self, d):
        c = self.c
        cand = ["&gi", "ga", "&ga[%s & 3]" % (self.e_int(d - 1) if d > 0 else "1"), "gp", "&gs.m", "gs.a", "(int *)0", "&gs.a[1]", "(int[]){1, 2}", "&(int){5}"]
        cand += self.vars("int*") + ["&" + v for v in self.vars("int") if v not in self.consts and not v.startswith("r_")]
        if d > 0 and c.chance(0.4):
            return c.choice(["(%s + %s)", "(%s - %s)"]) % (c.choice(cand), self.P(self.e_int(d - 1)))
        if d > 0 and c.chance(0.2):
            return "(%s ? %s : %s)" % (self.e_int(d - 1), c.choice(cand), c.choice(cand))
        return c.choice(cand)

    # -- declarations
    def decl(self):
        c = self.c
        n = self.fresh()
        k = c.below(18)
        sc = self.scopes[-1]
        if k < 3:
            q = c.choice(["", "", "const ", "volatile ", "auto ", "const volatile "])
            sc[n] = "int"
            if "const" in q:
                self.consts.add(n)
            return "%s%s %s = %s;" % (q, c.choice(["int", "T", "signed", "int", "signed int"]), n, self.e_int(2))
        if k == 3:
            n = "r_" + n
            sc[n] = "int"
            return "register int %s = %s;" % (n, self.e_int(1))
        if k == 4:
            sc[n] = "double"
            return "double %s = %s;" % (n, self.e_dbl(2))
        if k == 5:
            sc[n] = "int*"
            q = c.choice(["", "const ", "restrict ", "volatile "])
            if "const" in q:
                self.consts.add(n)
            return "int *%s%s = %s; gi += %s[0];" % (q, n, self.e_ptr(1), n)
        if k == 6:
            m = self.fresh()
            sc[n] = "int"
            sc[m] = "int"
            return "int %s = %s, %s = %s;" % (n, self.e_int(1), m, self.e_int(1))
        if k == 7:
            return "struct S %s = { .m = %s, .a = { [1] = %s }, .next = gsp };" % (n, self.e_int(1), self.e_int(1))
        if k == 8:
            return "int %s[3] = { %s, [2] = %s };" % (n, self.e_int(1), self.e_int(1))
        if k == 9:
            return "struct S %s = h2(%s); struct S *%s_p = &%s;" % (n, self.e_int(1), n, n)
        if k == 10:
            return "enum E %s = %s; union U %s_u = { .i = %s };" % (n, c.choice(["E0", "E1", "E2"]), n, self.e_int(1))
        if k == 11:
            return 'static int %s = 4; static const char %s_s[] = "a" "b\\n"; long long %s_l = 1LL << 3; unsigned char %s_c = \'x\'; long double %s_d = 1.L; _Bool %s_b = 1; short %s_h = 2;' % (n, n, n, n, n, n, n)
        if k == 12:
            sc[n] = "int"
            return "int %s_a[2][3] = { { 1, 2 }, [1][2] = %s, [1] = { [0] = 7 } }; int %s = %s_a[1][2];" % (n, self.e_int(1), n, n)
        if k == 13:
            return "struct { int q; struct { int r; } in; } %s = { .in.r = %s, .q = 1 }; int (*%s_f)(int, int) = &h0; int *%s_ap[2] = { &gi, gp }; int (*%s_pa)[4] = &ga;" % (n, self.e_int(1), n, n, n)
        if k == 14:
            sc[n] = "int"
            return "int %s_n = (%s & 3) + 1; int %s_vla[%s_n]; int %s = (int)sizeof %s_vla;" % (n, self.e_int(1), n, n, n, n)
        if k == 15:
            return 'const char *%s = "s" "t"; const int *%s_w = (const int *)L"w";' % (n, n)
        if k == 16 and self.c11:
            r = c.below(5)
            if r == 0:
                return '_Static_assert(%s, "m");' % c.choice(["1", "sizeof(int) > 1", "E1 == 5"])
            if r == 1:
                return "_Alignas(8) int %s_al = 1; static _Thread_local int %s_tl = 2; _Alignas(int) char %s_c2;" % (n, n, n)
            if r == 2:
                return "_Atomic int %s_at = 1; int * _Atomic %s_ap = gp; _Atomic(T) %s_a2 = 2;" % (n, n, n)
            if r == 3:
                return 'const char *%s_u8 = u8"a"; const unsigned short *%s_u16 = (const unsigned short *)u"b"; const unsigned *%s_u32 = (const unsigned *)U"c";' % (n, n, n)
            return "struct A11 %s_an = { .ax = %s, .au = 1 }; int %s_x = %s_an.ax + %s_an.au;" % (n, self.e_int(1), n, n, n)
        sc[n] = "int"
        return "typedef int %s_t; %s_t %s = %s;" % (n, n, n, self.e_int(1))

    # -- statements
    def stmt(self, d):
        c = self.c
        self.nstmts += 1
        if d <= 0:
            opts = [self.e_int(1) + ";", ";", "%s = %s;" % (self.lv_int(1), self.e_int(2))]
            if self.loop or self.sw:
                opts.append("break;")
            if self.loop:
                opts.append("continue;")
            return c.choice(opts)
        k = c.below(17)
        st = lambda: self.stmt(d - 1)  # noqa: E731
        if k == 0:
            return self.block(d - 1)
        if k == 1:
            return "if (%s) %s" % (self.e_int(2), st())
        if k == 2:
            return "if (%s) %s else %s" % (self.e_int(2), self.block(d - 1), st())
        if k == 3:
            self.loop += 1
            b = st()
            self.loop -= 1
            return "while (%s) %s" % (self.e_int(2), b)
        if k == 4:
            self.loop += 1
            b = st()
            self.loop -= 1
            return "do %s while (%s);" % (b, self.e_int(1))
        if k == 5:
            self.scopes.append({})
            i = self.fresh("i")
            self.scopes[-1][i] = "int"
            self.loop += 1
            b = st()
            self.loop -= 1
            self.scopes.pop()
            second = ""
            if self.c.chance(0.3):
                second = ", %s_j = 1" % i
            return "for (int %s = 0%s; %s < %s; %s++) %s" % (i, second, i, self.e_int(1), i, b)
        if k == 6:
            self.loop += 1
            b = st()
            self.loop -= 1
            return "for (%s; %s; %s) %s" % (c.choice(["", self.e_int(1)]), c.choice(["", self.e_int(1)]), c.choice(["", self.e_int(1)]), b)
        if k == 7:
            self.sw += 1
            pool = ["0", "1", "2", "E1", "7", "'a'", "(1 + 9)", "sizeof(char) + 20"]
            vals = []
            for _ in range(c.int(1, 4)):
                v = pool.pop(c.below(len(pool)))
                vals.append(v)
            body = ""
            for v in vals:
                inner = " ".join(self.stmt(d - 1) for _ in range(c.below(3))) or ";"
                body += "case %s: %s " % (v, inner)
            if c.chance(0.6):
                body += "default: %s " % self.stmt(d - 1)
            self.sw -= 1
            return "switch (%s) { %s}" % (self.e_int(2), body)
        if k == 8:
            return "return %s;" % self.e_int(2)
        if k == 9:
            lab = self.fresh("L")
            self.labels.append(lab)
            return "%s: %s" % (lab, st())
        if k == 10 and self.labels:
            return "goto %s;" % c.choice(self.labels)
        if k == 11 and self.on("stmt.pragma_before_substatement"):
            return "if (%s)\n#pragma omp parallel\n%s" % (self.e_int(1), st())
        if k == 12:
            return "(void)%s;" % self.P(self.e_dbl(2))
        if k == 13:
            return "gs = h2(%s);" % self.e_int(1)
        if k == 14:
            return "{\n#pragma omp barrier\n%s }" % st()
        if k == 15:
            return "h7(%s, &gi);" % c.choice(["h0", "gfp", "&h0", "*gfp"])
        return self.e_int(3) + ";"

    def block(self, d):
        self.scopes.append({})
        items = []
        for _ in range(self.c.int(0, 4)):
            items.append(self.decl() if self.c.chance(0.3) else self.stmt(d))
        self.scopes.pop()
        return "{ " + " ".join(items) + " }"

    def func(self):
        c = self.c
        n = self.fresh("fn")
        self.labels = []
        self.scopes.append({})
        a = self.fresh("a")
        b = self.fresh("b")
        self.scopes[-1][a] = "int"
        self.scopes[-1][b] = "int*"
        style = c.below(6)
        if style == 0:
            head = "int %s(int %s, int *%s)" % (n, a, b)
        elif style == 1:
            head = "static inline int %s(int %s, int *%s)" % (n, a, b)
        elif style == 2:
            head = "int %s(%s, %s) int *%s; int %s;" % (n, a, b, b, a)
        elif style == 3:
            self.consts.add(a)
            head = "T %s(const int %s, int *restrict %s)" % (n, a, b)
        elif style == 4:
            head = "static int %s(register int %s, int %s[], ...)" % (n, a, b)
            self.scopes[-1]["r_" + a] = self.scopes[-1].pop(a)
            head = head.replace(" " + a + ",", " r_" + a + ",")
        else:
            head = "extern long %s(int %s, int *const %s)" % (n, a, b)
            self.consts.add(b)
        body = self.block(3)
        self.scopes.pop()
        return head + " " + body[:-1] + " return 0; }"

    def toplevel(self):
        c = self.c
        k = c.below(10)
        n = self.fresh("g")
        if k < 6:
            return self.func()
        if k == 6:
            return "struct %s_s { int a; struct %s_s *self; enum %s_e { %s_A, %s_B = 3 } e; int flex[]; }; static struct %s_s *%s_p;" % (n, n, n, n, n, n, n)
        if k == 7:
            return "static const int %s_tab[] = { [2] = 1, 2, [0] = 3, }; typedef int (*%s_fp)(int, int); static %s_fp %s_h = h0; int (*%s_sig(int s, int (*h)(int, int)))(int, int);" % (n, n, n, n, n)
        if k == 8:
            return "\n#pragma once\n"
        return "extern int %s_x; int %s_x = %s; static int %s_y[2][2] = { { 1 }, { 2, 3 } };" % (n, n, c.choice(["1", "E1 + 2", "(int)sizeof(long)"]), n)


def program(c, c11=None, quarantine=()):
    """-> (text, std, generator)"""
    if c11 is None:
        c11 = c.chance(0.4)
    g = SG(c, c11, quarantine)
    parts = [PRE99]
    if c11:
        parts.append(PRE11)
    for _ in range(c.int(1, 3)):
        parts.append(g.toplevel())
    return "\n".join(parts) + "\n", ("c11" if c11 else "c99"), g
