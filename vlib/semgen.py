"""Semantic-profile generator (DESIGN.md 2.3): a typed builder over a small
universe that only produces well-typed, constraint-respecting C99/C11
programs.  gcc decides whether the builder succeeded; programs gcc rejects are
counted as generator misses and never used.  Every decision goes through a
Chooser.  No double-underscore keywords are produced."""
import collections

from . import cmodel as M

PRE99 = """typedef int T; typedef unsigned long UL;
struct S { int m; double d; int a[3]; struct S *next; unsigned bf : 3; unsigned : 0; int bg : 5; };
union U { int i; double f; };
enum E { E0, E1 = 5, E2 };
int ga[4] = { 1, 2, [3] = 4 }; int gi = 3; double gd = 1.5; struct S gs = { .m = 1, .a = { 1, 2 } }; struct S *gsp = &gs; union U gu = { 2 }; int *gp = &gi; char gc = 'c'; unsigned gu2 = 7u; long gl = 9L;
static int h0(int a, int b) { return a + b; }
static double h1(double x) { return x * 2.0; }
static struct S h2(int a) { struct S r = { a, 0.5, { 0 }, 0, 1 }; return r; }
static int (*gfp)(int, int) = h0;
static int h3(int n, int v[n]) { return v[0] + n; }
static int h4(int n, int v[static 2]) { return v[1] + n; }
static int h5(int v[const restrict 3], ...) { return v[2]; }
extern int h6(int n, int m[*][n]);
static void h7(int (*cb)(int, int), int *restrict out) { *out = cb(1, 2); }
static long long gll = 1LL << 40; static unsigned long long gull = 3ULL; static long double gld = 2.5L; static signed char gsc = -1; static unsigned short gus = 9;
static int *volatile gvp = &gi; static const volatile int gcv = 4; static int *const gcp = &gi; static volatile int *gpv = &gi;
static int h9(void) { struct lt { int a; long b[2]; } v = { 1, { 2, 3 } }; return (int)sizeof v + v.a; }
static int h10(void) { struct lt { char c; } v = { 'x' }; enum le { LA = 3, LB } e = LB; return (int)sizeof v + e + LA; }
static int h11(void) { enum le { LA = 7, LC } e = LC; union lt { int i; double d; } u = { 1 }; return e + LA + u.i; }
static int h8(void) { return (int)(gll >> 38) + (int)gull + (int)gld + gsc + gus + *gvp + gcv + *gcp + *gpv; }
"""
PRE11 = """struct A11 { int x; struct { int ax; int ay; }; union { int au; float av; }; };
static struct A11 ga11 = { 1, { 2, 3 }, { 4 } };
_Static_assert(sizeof(int) >= 2, "int" " size");
static _Thread_local int gtl = 1;
_Alignas(16) static int gal16 = 0; _Alignas(double) static char galc;
static _Atomic int gat = 0; static _Atomic(int) gat2 = 0;
static _Noreturn void hnr(void) { for (;;) ; }
static inline _Noreturn void hnr2(void) { hnr(); }
"""

INT_LITS = [
    "0", "1", "2", "7", "10u", "3L", "0x1F", "017", "'a'", "E1", "E2", "1ULL", "4lu", "5LLu", "6uLL", "8Ul", "0X7fL", "'\\n'", "'\\x41'", "'\\0'",
    "(int)sizeof(int)", "(int)sizeof(struct S)",
]  # fmt: skip
INT_LITS11 = ["(int)_Alignof(double)", "u'a'", "U'b'", "(int)_Alignof(struct S)"]
DBL_LITS = ["1.0", "2.5f", ".5", "1e2", "0x1p3", "3.L", "1.e-1", "0x1.8p1f", "2E+1F", "7.l", "08.5", "09e1", "0079.25f", "00.9L"]


class SG:
    def __init__(self, c, c11, quarantine=()):
        self.c = c
        self.c11 = c11
        self.q = set(quarantine)
        self.k = 0
        self.scopes = [{"gi": "int", "gd": "double", "gl": "long"}]
        self.consts = set()
        self.labels = []
        self.loop = 0
        self.sw = 0
        self.features = collections.Counter()
        self.excluded = collections.Counter()
        self.nstmts = 0
        self.npragma = 0
        self.mode = c.choice(["min", "min", "red", "full"])

    def on(self, feature, p=None):
        if p is not None and not self.c.chance(p):
            return False
        if feature in self.q:
            self.excluded[feature] += 1
            return False
        self.features[feature] += 1
        return True

    def fresh(self, p="v"):
        self.k += 1
        return "%s%d" % (p, self.k)

    def vars(self, ty, writable=False):
        return [n for sc in self.scopes for n, t in sc.items() if t == ty and not (writable and n in self.consts)]


    # -- expressions
    # Expression builders return (text, grammar level); W() adds the
    # parentheses a context of level `need` requires - only those in 'min'
    # mode, around every non-primary operand in 'full' mode, randomly in 'red'
    # mode - so that unparenthesised chains (a ? b : c ? d : e, a - b - c,
    # a * b + c) reach the compiler exactly as the C grammar groups them.
    def W(self, pair, need):
        text, lv = pair
        wrap = lv < need
        if not wrap and lv < M.L_PRIMARY:
            if self.mode == "full":
                wrap = True
            elif self.mode == "red" and self.c.chance(0.3):
                wrap = True
        return "(" + text + ")" if wrap else text

    STR_BODIES = ["s", "t", "a b", "%d\\n", "\\x41", "\\101", "\\0", "\\1", "\\\\", "\\\"q", "1", "f", "9g", "", "\\x1", "\\t2", "\\\"", "say \\\"", "\\\\\\\""]

    def strlit(self):
        """1-3 adjacent plain string literals.  A piece ending in a hex escape (or
        an octal escape of fewer than three digits) followed by a piece starting
        with a digit of that base is finding F39: the pieces are joined textually"""
        import re

        c = self.c
        pieces = [c.choice(self.STR_BODIES)]
        for _ in range(c.below(3)):
            nxt = c.choice(self.STR_BODIES)
            prev = pieces[-1]
            hazard = (re.search(r"\\x[0-9a-fA-F]+$", prev) and re.match(r"[0-9a-fA-F]", nxt)) or (re.search(r"(?<!\\)(\\\\)*\\[0-7]{1,2}$", prev) and re.match(r"[0-7]", nxt))
            if hazard and not self.on("lit.escape_then_digit_across_pieces"):
                nxt = "z" + nxt
            pieces.append(nxt)
        return " ".join('"%s"' % p for p in pieces)

    def ilit(self):
        pool = INT_LITS + (INT_LITS11 if self.c11 else [])
        v = self.c.choice(pool)
        return (v, M.L_CAST if v.startswith("(int)") else M.L_PRIMARY)

    def lv_int(self, d):
        """an int lvalue: (text, level)"""
        c = self.c
        cand = []
        v = self.vars("int", writable=True)
        if v:
            cand += [(c.choice(v), M.L_PRIMARY)] * 3
        ix = (lambda: self.W(self.e_int(d - 1), M.BIN["&"] + 1)) if d > 0 else (lambda: c.choice(["0", "1", "2"]))
        cand += [("gs.m", M.L_POSTFIX), ("gsp->m", M.L_POSTFIX), ("gu.i", M.L_POSTFIX), ("ga[%s & 3]" % ix(), M.L_POSTFIX), ("*gp", M.L_UNARY),
                 ("gs.a[1]", M.L_POSTFIX), ("gs.a[%s & 1]" % ix(), M.L_POSTFIX), ("gsp->next->m", M.L_POSTFIX)]  # fmt: skip
        if self.c11:
            cand += [("ga11.ax", M.L_POSTFIX), ("ga11.au", M.L_POSTFIX)]
        a = self.vars("int*")
        if a:
            cand.append(("*" + c.choice(a), M.L_UNARY))
            cand.append((c.choice(a) + "[0]", M.L_POSTFIX))
        return c.choice(cand)

    def e_int(self, d):
        c = self.c
        W = self.W
        if d <= 0 or c.chance(0.25):
            return c.choice([self.ilit(), self.lv_int(0), self.ilit()])
        k = c.below(27)
        e = lambda: self.e_int(d - 1)  # noqa: E731
        if k < 6:
            op = c.choice(["+", "-", "*", "/", "%", "<<", ">>", "&", "|", "^", "&&", "||", "==", "!=", "<", ">", "<=", ">="])
            lv = M.BIN[op]
            if c.chance(0.25):
                # the same operator nested on the right (parentheses required:
                # 'a - (b - c)', 'a + (b + c)') or on the left (none needed): what a
                # generator that "knows" an operator is associative would regroup
                inner = ("%s %s %s" % (W(e(), lv), op, W(e(), lv + 1)), lv)
                if c.chance(0.6):
                    return ("%s %s %s" % (W(e(), lv), op, W(inner, lv + 1)), lv)
                return ("%s %s %s" % (W(inner, lv), op, W(e(), lv + 1)), lv)
            if op in "+-" and c.chance(0.15):
                # 'a - -b', 'a - --b', 'a + ++b': the right operand starts with the operator's character
                right = op + " " + W(e(), M.L_CAST) if c.chance(0.5) else op + op + W(self.lv_int(d), M.L_UNARY)
                return ("%s %s %s" % (W(e(), lv), op, right), lv)
            return ("%s %s %s" % (W(e(), lv), op, W(e(), lv + 1)), lv)
        if k == 6:
            op = c.choice(["-", "+", "~", "!"])
            if c.chance(0.3):
                # a prefix operator applied to an operand that starts with the same
                # character: '- --x', '-(--x)', '- -x', '+ ++x', '! !x' - written
                # without the gap or the parentheses the two would fuse into another token
                if op in "+-" and c.chance(0.6):
                    inner = op + op + W(self.lv_int(d), M.L_UNARY)
                else:
                    inner = op + " " + W(e(), M.L_CAST)
                return (op + c.choice([" %s", "(%s)"]) % inner, M.L_UNARY)
            return (op + " " + W(e(), M.L_CAST), M.L_UNARY)
        if k == 7 or k == 8:
            third = e()
            if c.chance(0.35):
                # a chain 'a ? b : c ? d : e' (the else-arm is a conditional expression
                # and needs no parentheses): right-associative grouping matters
                third = ("%s ? %s : %s" % (W(e(), 1), W(e(), M.L_COMMA), W(third, M.L_COND)), M.L_COND)
            return ("%s ? %s : %s" % (W(e(), 1), W(e(), M.L_COMMA), W(third, M.L_COND)), M.L_COND)
        if k == 9:
            return ("%s, %s" % (W(e(), M.L_ASG), W(e(), M.L_ASG)), M.L_COMMA)
        if k == 10:
            op = c.choice(["=", "+=", "-=", "*=", "/=", "%=", "<<=", ">>=", "&=", "|=", "^="])
            return ("%s %s %s" % (W(self.lv_int(d), M.L_UNARY), op, W(e(), M.L_ASG)), M.L_ASG)
        if k == 11:
            lv = self.lv_int(d)
            if c.chance(0.5):
                return (W(lv, M.L_POSTFIX) + c.choice(["++", "--"]), M.L_POSTFIX)
            return (c.choice(["++", "--"]) + W(lv, M.L_UNARY), M.L_UNARY)
        if k == 12:
            return ("h0(%s, %s)" % (W(e(), M.L_ASG), W(e(), M.L_ASG)), M.L_POSTFIX)
        if k == 13:
            return (c.choice(["gfp", "(*gfp)", "(gfp)", "(**gfp)"]) + "(%s, %s)" % (W(e(), M.L_ASG), W(e(), M.L_ASG)), M.L_POSTFIX)
        if k == 14:
            return ("(int)" + W(self.e_dbl(d - 1), M.L_CAST), M.L_CAST)
        if k == 15:
            return ("(int)sizeof(%s)" % c.choice(["int", "T", "struct S", "int[3]", "int *", "union U", "struct S *", "UL", "int (*)(int, int)", "const volatile T * const *", "enum E", "long long unsigned"]), M.L_CAST)
        if k == 16:
            return ("(int)sizeof " + W(e(), M.L_UNARY), M.L_CAST)
        if k == 17:
            return ("h2(%s).m" % W(e(), M.L_ASG), M.L_POSTFIX)
        if k == 18:
            return ("(int)(%s - %s)" % (W(self.e_ptr(d - 1), M.BIN["-"]), W(self.e_ptr(d - 1), M.BIN["-"] + 1)), M.L_CAST)
        if k == 19:
            return ("%s == %s" % (W(self.e_ptr(d - 1), M.BIN["=="]), W(self.e_ptr(d - 1), M.BIN["=="] + 1)), M.BIN["=="])
        if k == 20:
            return ("(int){%s}" % W(e(), M.L_ASG), M.L_POSTFIX)
        if k == 21:
            form, lv = c.choice([("((struct S){.m = %s, .d = 1.0}).m", M.L_POSTFIX), ("(struct S){.m = %s, .d = 1.0}.m", M.L_POSTFIX), ("(int[]){1, %s, 3}[1]", M.L_POSTFIX), ("(int)sizeof (int){%s}", M.L_CAST),
                                  ("(int)sizeof (int[]){1, %s}[0]", M.L_CAST), ("(int)sizeof (struct S){.m = %s}.m", M.L_CAST), ("(int)sizeof (struct S *[]){gsp, (%s, gsp)}[1]->m", M.L_CAST)])
            return (form % W(e(), M.L_ASG), lv)
        if k == 22:
            return ("(T)(UL)" + W(e(), M.L_CAST), M.L_CAST)
        if k == 23:
            return ("h3(2, (int[]){%s, 2})" % W(e(), M.L_ASG), M.L_POSTFIX)
        if k == 24:
            return ("h4(1, ga) + h5(ga, %s)" % W(e(), M.L_ASG), M.BIN["+"])
        if k == 25:
            return ("(int)gs.bf + (gs.bg = %s & 7)" % W(e(), M.BIN["&"]), M.BIN["+"])
        return ("*" + W(self.e_ptr(d - 1), M.L_CAST), M.L_UNARY)

    def e_dbl(self, d):
        c = self.c
        W = self.W
        if d <= 0 or c.chance(0.3):
            v = c.choice(DBL_LITS + ["gd", "gs.d", "gu.f"] + self.vars("double"))
            return (v, M.L_POSTFIX if "." in v and v[0].isalpha() else M.L_PRIMARY)
        k = c.below(7)
        e = lambda: self.e_dbl(d - 1)  # noqa: E731
        if k <= 1:
            op = c.choice("+-*/")
            if c.chance(0.3):
                inner = ("%s %s %s" % (W(e(), M.BIN[op]), op, W(e(), M.BIN[op] + 1)), M.BIN[op])
                return ("%s %s %s" % (W(e(), M.BIN[op]), op, W(inner, M.BIN[op] + 1)), M.BIN[op])
            return ("%s %s %s" % (W(e(), M.BIN[op]), op, W(e(), M.BIN[op] + 1)), M.BIN[op])
        if k == 2:
            return ("- " + W(e(), M.L_CAST), M.L_UNARY)
        if k == 3:
            return ("h1(%s)" % W(e(), M.L_ASG), M.L_POSTFIX)
        if k == 4:
            return ("(double)" + W(self.e_int(d - 1), M.L_CAST), M.L_CAST)
        if k == 5:
            return ("%s ? %s : %s" % (W(self.e_int(d - 1), 1), W(e(), M.L_COMMA), W(e(), M.L_COND)), M.L_COND)
        return ("gd = %s" % W(e(), M.L_ASG), M.L_ASG)

    def e_ptr(self, d):
        c = self.c
        W = self.W
        cand = [("&gi", M.L_UNARY), ("ga", M.L_PRIMARY), ("&ga[%s & 3]" % (W(self.e_int(d - 1), M.BIN["&"] + 1) if d > 0 else "1"), M.L_UNARY), ("gp", M.L_PRIMARY),
                ("&gs.m", M.L_UNARY), ("gs.a", M.L_POSTFIX), ("(int *)0", M.L_CAST), ("&gs.a[1]", M.L_UNARY), ("(int[]){1, 2}", M.L_POSTFIX), ("&(int){5}", M.L_UNARY)]  # fmt: skip
        cand += [(v, M.L_PRIMARY) for v in self.vars("int*")] + [("&" + v, M.L_UNARY) for v in self.vars("int") if v not in self.consts and not v.startswith("r_")]
        if d > 0 and c.chance(0.4):
            op = c.choice(["+", "-"])
            return ("%s %s %s" % (W(c.choice(cand), M.BIN[op]), op, W(self.e_int(d - 1), M.BIN[op] + 1)), M.BIN[op])
        if d > 0 and c.chance(0.2):
            return ("%s ? %s : %s" % (W(self.e_int(d - 1), 1), W(c.choice(cand), M.L_COMMA), W(c.choice(cand), M.L_COND)), M.L_COND)
        return c.choice(cand)

    # text at a given context level
    def xi(self, d, need=None):
        return self.W(self.e_int(d), M.L_ASG if need is None else need)

    def xd(self, d, need=None):
        return self.W(self.e_dbl(d), M.L_ASG if need is None else need)

    def xp(self, d, need=None):
        return self.W(self.e_ptr(d), M.L_ASG if need is None else need)

    # -- declarations
    def decl(self):
        c = self.c
        n = self.fresh()
        k = c.below(19)
        sc = self.scopes[-1]
        if k < 3:
            q = c.choice(["", "", "const ", "volatile ", "auto ", "const volatile "])
            sc[n] = "int"
            if "const" in q:
                self.consts.add(n)
            return "%s%s %s = %s;" % (q, c.choice(["int", "T", "signed", "int", "signed int"]), n, self.xi(2))
        if k == 3:
            n = "r_" + n
            sc[n] = "int"
            return "register int %s = %s;" % (n, self.xi(1))
        if k == 4:
            sc[n] = "double"
            return "double %s = %s;" % (n, self.xd(2))
        if k == 5:
            sc[n] = "int*"
            q = c.choice(["", "const ", "restrict ", "volatile "])
            if "const" in q:
                self.consts.add(n)
            return "int *%s%s = %s; gi += %s[0];" % (q, n, self.xp(1), n)
        if k == 6:
            m = self.fresh()
            sc[n] = "int"
            sc[m] = "int"
            return "int %s = %s, %s = %s;" % (n, self.xi(1), m, self.xi(1))
        if k == 7:
            return "struct S %s = { .m = %s, .a = { [1] = %s }, .next = gsp };" % (n, self.xi(1), self.xi(1))
        if k == 8:
            return "int %s[3] = { %s, [2] = %s };" % (n, self.xi(1), self.xi(1))
        if k == 9:
            return "struct S %s = h2(%s); struct S *%s_p = &%s;" % (n, self.xi(1), n, n)
        if k == 10:
            return "enum E %s = %s; union U %s_u = { .i = %s };" % (n, c.choice(["E0", "E1", "E2"]), n, self.xi(1))
        if k == 11:
            return 'static int %s = 4; static const char %s_s[] = "a" "b\\n"; long long %s_l = 1LL << 3; unsigned char %s_c = \'x\'; long double %s_d = 1.L; _Bool %s_b = 1; short %s_h = 2;' % (n, n, n, n, n, n, n)
        if k == 12:
            sc[n] = "int"
            return "int %s_a[2][3] = { { 1, 2 }, [1][2] = %s, [1] = { [0] = 7 } }; int %s = %s_a[1][2];" % (n, self.xi(1), n, n)
        if k == 13:
            return "struct { int q; struct { int r; } in; } %s = { .in.r = %s, .q = 1 }; int (*%s_f)(int, int) = &h0; int *%s_ap[2] = { &gi, gp }; int (*%s_pa)[4] = &ga;" % (n, self.xi(1), n, n, n)
        if k == 14:
            sc[n] = "int"
            return "int %s_n = (%s & 3) + 1; int %s_vla[%s_n]; int %s = (int)sizeof %s_vla;" % (n, self.xi(1, M.BIN["&"]), n, n, n, n)
        if k == 15:
            return 'const char *%s = %s; const char %s_a[] = %s; const int *%s_w = (const int *)L"w";' % (n, self.strlit(), n, self.strlit(), n)
        if k == 16 and self.c11:
            r = c.below(5)
            if r == 0:
                return '_Static_assert(%s, "m");' % c.choice(["1", "sizeof(int) > 1", "E1 == 5"])
            if r == 1:
                return "_Alignas(8) int %s_al = 1; static _Thread_local int %s_tl = 2; _Alignas(int) char %s_c2;" % (n, n, n)
            if r == 2:
                return "_Atomic int %s_at = 1; int * _Atomic %s_ap = gp; _Atomic(T) %s_a2 = 2;" % (n, n, n)
            if r == 3:
                return 'const char *%s_u8 = u8"a"; const unsigned short *%s_u16 = (const unsigned short *)u"b"; const unsigned *%s_u32 = (const unsigned *)U"c";' % (n, n, n)
            return "struct A11 %s_an = { .ax = %s, .au = 1 }; int %s_x = %s_an.ax + %s_an.au;" % (n, self.xi(1), n, n, n)
        if k == 17:
            sc[n] = "int"
            tag = c.choice(["lt0", "lt1"])
            body = c.choice(["int a;", "int a; long b[2];", "char a; double b; int c;", "short a : 3; int : 0; int c;"])
            return "struct %s { %s } %s_s; int %s = (int)sizeof(struct %s) + (int)sizeof %s_s;" % (tag, body, n, n, tag, n)
        sc[n] = "int"
        return "typedef int %s_t; %s_t %s = %s;" % (n, n, n, self.xi(1))

    # -- statements
    def stmt(self, d):
        c = self.c
        self.nstmts += 1
        if d <= 0:
            opts = [self.xi(1, M.L_COMMA) + ";", ";", "%s = %s;" % (self.W(self.lv_int(1), M.L_UNARY), self.xi(2))]
            # a grouping probe: one operator twice, nested on the right - the
            # parentheses carry the meaning (also for + * & | ^, whose regrouping
            # changes the order of evaluation the compiler emits)
            op = c.choice(["+", "-", "*", "/", "%", "<<", ">>", "&", "|", "^", "&&", "||", "==", "!=", "<", ">", "<=", ">="])
            x, y, z = [self.W(c.choice([self.lv_int(0), self.ilit()]), M.L_CAST) for _ in range(3)]
            opts.append("%s = %s %s (%s %s %s);" % (self.W(self.lv_int(0), M.L_UNARY), x, op, y, op, z))
            if self.loop or self.sw:
                opts.append("break;")
            if self.loop:
                opts.append("continue;")
            return c.choice(opts)
        k = c.below(17)

        def st():
            # a run of pragmas (directive and operator form mixed) in front of a
            # braceless body: unknown pragmas mean nothing to gcc, but the body
            # must stay the body
            s = self.stmt(d - 1)
            if c.chance(0.07):
                self.npragma += 1
                run = "".join(c.choice(["\n#pragma pycp %d\n", ' _Pragma("pycp %d") ']) % (self.npragma * 10 + j) for j in range(c.int(1, 3)))
                return run + s
            return s

        if k == 0:
            return self.block(d - 1)
        if k == 1:
            return "if (%s) %s" % (self.xi(2, M.L_COMMA), st())
        if k == 2:
            return "if (%s) %s else %s" % (self.xi(2, M.L_COMMA), self.block(d - 1), st())
        if k == 3:
            self.loop += 1
            b = st()
            self.loop -= 1
            return "while (%s) %s" % (self.xi(2, M.L_COMMA), b)
        if k == 4:
            self.loop += 1
            b = st()
            self.loop -= 1
            return "do %s while (%s);" % (b, self.xi(1, M.L_COMMA))
        if k == 5:
            self.scopes.append({})
            i = self.fresh("i")
            self.scopes[-1][i] = "int"
            self.loop += 1
            b = st()
            self.loop -= 1
            self.scopes.pop()
            second = ""
            if self.c.chance(0.3):
                second = ", %s_j = 1" % i
            return "for (int %s = 0%s; %s < %s; %s++) %s" % (i, second, i, self.xi(1, M.BIN["<"] + 1), i, b)
        if k == 6:
            self.loop += 1
            b = st()
            self.loop -= 1
            return "for (%s; %s; %s) %s" % (c.choice(["", self.xi(1, M.L_COMMA)]), c.choice(["", self.xi(1, M.L_COMMA)]), c.choice(["", self.xi(1, M.L_COMMA)]), b)
        if k == 7:
            self.sw += 1
            pool = ["0", "1", "2", "E1", "7", "'a'", "(1 + 9)", "sizeof(char) + 20"]
            vals = []
            for _ in range(c.int(1, 4)):
                v = pool.pop(c.below(len(pool)))
                vals.append(v)
            # label runs ('case 1: case 2: default:' share the statements that
            # follow), empty and long case bodies, default anywhere, statements
            # before the first label (unreachable but valid)
            labels = ["case %s:" % v for v in vals]
            if c.chance(0.6):
                labels.insert(c.below(len(labels) + 1), "default:")
            body = ""
            if c.chance(0.15):
                body += " ".join(self.stmt(d - 1) for _ in range(c.int(1, 2))) + " "
            i = 0
            while i < len(labels):
                run = c.int(1, 3) if c.chance(0.4) else 1
                body += " ".join(labels[i : i + run]) + " "
                i += run
                inner = " ".join(self.stmt(d - 1) for _ in range(c.below(4)))
                if not inner and i >= len(labels):
                    inner = ";"
                if inner:
                    body += inner + " "
                if c.chance(0.4):
                    body += "break; "
            self.sw -= 1
            return "switch (%s) { %s}" % (self.xi(2, M.L_COMMA), body)
        if k == 8:
            return "return %s;" % self.xi(2, M.L_COMMA)
        if k == 9:
            lab = self.fresh("L")
            self.labels.append(lab)
            return "%s: %s" % (lab, st())
        if k == 10 and self.labels:
            return "goto %s;" % c.choice(self.labels)
        if k == 11 and self.on("stmt.pragma_before_substatement"):
            return "if (%s)\n#pragma omp parallel\n%s" % (self.xi(1), st())
        if k == 12:
            return "(void)%s;" % self.xd(2, M.L_CAST)
        if k == 13:
            return "gs = h2(%s);" % self.xi(1)
        if k == 14:
            return "{\n#pragma omp barrier\n%s }" % st()
        if k == 15:
            return "h7(%s, &gi);" % c.choice(["h0", "gfp", "&h0", "*gfp"])
        return self.xi(3, M.L_COMMA) + ";"

    def block(self, d):
        self.scopes.append({})
        items = []
        for _ in range(self.c.int(0, 4)):
            items.append(self.decl() if self.c.chance(0.3) else self.stmt(d))
        self.scopes.pop()
        return "{ " + " ".join(items) + " }"

    def func(self):
        c = self.c
        n = self.fresh("fn")
        self.labels = []
        self.scopes.append({})
        a = self.fresh("a")
        b = self.fresh("b")
        self.scopes[-1][a] = "int"
        self.scopes[-1][b] = "int*"
        style = c.below(6)
        if style == 0:
            head = "int %s(int %s, int *%s)" % (n, a, b)
        elif style == 1:
            head = "static inline int %s(int %s, int *%s)" % (n, a, b)
        elif style == 2:
            head = "int %s(%s, %s) int *%s; int %s;" % (n, a, b, b, a)
        elif style == 3:
            self.consts.add(a)
            head = "T %s(const int %s, int *restrict %s)" % (n, a, b)
        elif style == 4:
            head = "static int %s(register int %s, int %s[], ...)" % (n, a, b)
            self.scopes[-1]["r_" + a] = self.scopes[-1].pop(a)
            head = head.replace(" " + a + ",", " r_" + a + ",")
        else:
            head = "extern long %s(int %s, int *const %s)" % (n, a, b)
            self.consts.add(b)
        body = self.block(3)
        self.scopes.pop()
        # every function ends in a grouping probe over the globals (see stmt())
        op = c.choice(["+", "-", "*", "/", "%", "<<", ">>", "&", "|", "^", "&&", "||", "==", "!=", "<", ">", "<=", ">="])
        x, y, z = [c.choice(["gi", "ga[1]", "gs.m", "3", "*gp", "7", "gu.i"]) for _ in range(3)]
        probe = "gi = %s %s (%s %s %s);" % (x, op, y, op, z)
        return head + " " + body[:-1] + " " + probe + " return 0; }"

    def toplevel(self):
        c = self.c
        k = c.below(10)
        n = self.fresh("g")
        if k < 6:
            return self.func()
        if k == 6:
            return "struct %s_s { int a; struct %s_s *self; enum %s_e { %s_A, %s_B = 3 } e; int flex[]; }; static struct %s_s *%s_p;" % (n, n, n, n, n, n, n)
        if k == 7:
            return "static const int %s_tab[] = { [2] = 1, 2, [0] = 3, }; typedef int (*%s_fp)(int, int); static %s_fp %s_h = h0; int (*%s_sig(int s, int (*h)(int, int)))(int, int);" % (n, n, n, n, n)
        if k == 8:
            return "\n#pragma once\n"
        return "extern int %s_x; int %s_x = %s; static int %s_y[2][2] = { { 1 }, { 2, 3 } };" % (n, n, c.choice(["1", "E1 + 2", "(int)sizeof(long)"]), n)


def program(c, c11=None, quarantine=()):
    """-> (text, std, generator)"""
    if c11 is None:
        c11 = c.chance(0.4)
    g = SG(c, c11, quarantine)
    parts = [PRE99]
    if c11:
        parts.append(PRE11)
    for _ in range(c.int(1, 3)):
        parts.append(g.toplevel())
    text = "\n".join(parts) + "\n"
    if c.chance(0.15):
        # a pragma that matters to the compiler as the very last line, with or
        # without a final newline (the symbol becomes weak only if the whole
        # pragma text survives)
        text += "int pycp_weak_fn(void) { return 1; }\n#pragma weak pycp_weak_fn" + c.choice(["", "\n", ""])
    return text, ("c11" if c11 else "c99"), g
