"""Corner catalogue loader (corpus/corners.c.txt)."""
import os

_HERE = os.path.dirname(os.path.dirname(os.path.abspath(__file__)))
_cache = None


def _load():
    global _cache
    if _cache is None:
        text = open(os.path.join(_HERE, "corpus", "corners.c.txt"), encoding="utf-8").read()
        blocks = text.split("\n%%\n")
        blocks = [b.strip("\n") for b in blocks[1:]]
        _cache = (blocks[0], blocks[1:])
    return _cache


def prelude():
    return _load()[0]


def corner_blocks():
    return list(_load()[1])


def corner_programs():
    pre, blocks = _load()
    return [pre + "\n" + b + "\n" for b in blocks]
