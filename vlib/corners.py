"""Corner catalogue loader (corpus/corners.c.txt).

Blocks are separated by lines starting with '%%'.  The first block is a
prelude prepended to every other block.  A separator '%% Fnn' tags the block
as the minimal input of known finding Fnn: such blocks are not part of
corner_programs() (which only contains programs the tree is expected to
accept); finding_blocks() returns them."""
import os
import re

_HERE = os.path.dirname(os.path.dirname(os.path.abspath(__file__)))
_cache = None


def _load():
    global _cache
    if _cache is None:
        text = open(os.path.join(_HERE, "corpus", "corners.c.txt"), encoding="utf-8").read()
        parts = re.split(r"(?m)^%%[ \t]*(\S*)[ \t]*\n", text)
        # parts: [header, tag1, block1, tag2, block2, ...]
        blocks = [(parts[i] or None, parts[i + 1].strip("\n")) for i in range(1, len(parts) - 1, 2)]
        _cache = (blocks[0][1], blocks[1:])
    return _cache


def prelude():
    return _load()[0]


def corner_blocks():
    return [b for t, b in _load()[1] if t is None]


def finding_blocks():
    return [(t, b) for t, b in _load()[1] if t is not None]


def corner_programs():
    pre = prelude()
    return [pre + "\n" + b + "\n" for b in corner_blocks()]
