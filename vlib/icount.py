"""Work measured in executed machine instructions (valgrind's cachegrind,
instruction counting only).

Call and line events do not see work done inside one C-level operation (a list
copy, a dict merge, a string concatenation), and CPU time depends on what else
the machine is doing (two false alarms of the time-based test were produced by
memory-hungry neighbours: x5.9 and x7.5 for four times the input, re-measured
three times).  The number of instructions a fresh interpreter executes to parse
a text is the same to within 0.001 % from run to run, whatever the load.

    instructions(text)  ->  int   (a child process: import pycparser, parse)
    baseline()          ->  int   (the same child on 'int x;')
"""
import os
import re
import shutil
import subprocess
import sys
import tempfile

CHILD = (
    "import sys\n"
    "sys.path.insert(0, sys.argv[1])\n"
    "from pycparser import c_parser\n"
    "src = open(sys.argv[2]).read()\n"
    "try:\n"
    "    c_parser.CParser().parse(src, 'f.c')\n"
    "except c_parser.ParseError:\n"
    "    sys.exit(3)\n"
)


CHILD_LEX = (
    "import sys\n"
    "sys.path.insert(0, sys.argv[1])\n"
    "from pycparser.c_lexer import CLexer\n"
    "src = open(sys.argv[2], newline='').read()\n"
    "stop = sys.argv[3] == '1'\n"
    "class E(Exception):\n"
    "    pass\n"
    "def err(m, l, c):\n"
    "    if stop:\n"
    "        raise E()\n"
    "lx = CLexer(err, lambda: None, lambda: None, lambda n: False)\n"
    "lx.input(src)\n"
    "try:\n"
    "    for _ in range(len(src) + 3):\n"
    "        if lx.token() is None:\n"
    "            break\n"
    "except E:\n"
    "    pass\n"
)


def available():
    return shutil.which("valgrind") is not None


class Unavailable(Exception):
    pass


def instructions(text, repo=None, timeout=900, mode="parse", stop_at_error=False):
    """-> number of instructions executed by a fresh interpreter that imports
    pycparser and parses `text` (mode 'lex': runs a bare CLexer over it, up to the
    first error report if stop_at_error); raises Unavailable if that cannot be measured"""
    repo = repo or os.environ.get("PYCPARSER_REPO", "/repo")
    if not available():
        raise Unavailable("valgrind not found")
    d = tempfile.mkdtemp(prefix="ic_")
    try:
        src = os.path.join(d, "t.c")
        with open(src, "w", newline="") as f:
            f.write(text)
        child = os.path.join(d, "child.py")
        with open(child, "w") as f:
            f.write(CHILD if mode == "parse" else CHILD_LEX)
        env = dict(os.environ, PYTHONHASHSEED="0", PYTHONDONTWRITEBYTECODE="1")
        env.pop("PYTHONPATH", None)
        try:
            p = subprocess.run(["valgrind", "--tool=cachegrind", "--vgdb=no", "--cache-sim=no", "--cachegrind-out-file=/dev/null", sys.executable, "-S", child, repo, src] + (["1" if stop_at_error else "0"] if mode != "parse" else []),
                               capture_output=True, text=True, env=env, timeout=timeout, cwd=d)  # fmt: skip
        except subprocess.TimeoutExpired:
            raise Unavailable("valgrind run exceeded %d s" % timeout)
        m = re.search(r"I\s+refs:\s+([\d,]+)", p.stderr)
        if p.returncode not in (0,) or not m:
            raise Unavailable("valgrind run failed (rc=%s): %s" % (p.returncode, p.stderr[-300:]))
        return int(m.group(1).replace(",", ""))
    finally:
        shutil.rmtree(d, ignore_errors=True)


_base = {}


def baseline(repo=None, mode="parse"):
    repo = repo or os.environ.get("PYCPARSER_REPO", "/repo")
    if (repo, mode) not in _base:
        _base[(repo, mode)] = instructions("int x;", repo, mode=mode)
    return _base[(repo, mode)]
