"""Shared runner: argument handling, sharding, replay tier, known findings,
evidence writing.  See DESIGN.md sections 1-3."""
import ast
import collections
import hashlib
import importlib
import json
import multiprocessing
import os
import sys
import time
import traceback

# 16 vCPUs, but memory-heavy Python work stops scaling at ~8-10 processes in
# this VM (measured: 16 Hypothesis shards take 4.2 s on 8 processes, 5.9 s on 16)
NPROC = int(os.environ.get("VERIF_NPROC", "10"))


class HarnessError(Exception):
    """Something is wrong with the machinery itself (exit 2)."""


class CheckFailure(Exception):
    """Raised by an oracle when the property is violated on a case."""

    def __init__(self, subcheck, case, text, detail, sig):
        Exception.__init__(self, "%s: %s" % (subcheck, detail))
        self.failure = dict(subcheck=subcheck, case=case, text=text, detail=detail, sig=sig)


def fail(subcheck, case, text, detail, sig):
    raise CheckFailure(subcheck, case, text, detail, sig)


def h64(obj):
    return int.from_bytes(hashlib.blake2b(repr(obj).encode("utf-8", "backslashreplace"), digest_size=8).digest(), "big")


class Stats:
    """Mergeable counters kept by every shard."""

    MAX_SAMPLES = 8

    def __init__(self):
        self.evaluations = 0
        self.nontrivial = 0  # distinct by construction (enumerations)
        self.nt_hashes = set()  # distinct by hash (random generation)
        self.classes = collections.Counter()
        self.excluded = collections.Counter()
        self.samples = []
        self.failures = []
        self.notes = {}
        self.sets = {}  # name -> set, merged by union
        self.budget_exhausted = False

    def sample(self, s):
        if len(self.samples) < self.MAX_SAMPLES:
            self.samples.append(s)

    def nt(self, key):
        self.nt_hashes.add(h64(key))

    def merge(self, o):
        self.evaluations += o.evaluations
        self.nontrivial += o.nontrivial
        self.nt_hashes |= o.nt_hashes
        self.classes.update(o.classes)
        self.excluded.update(o.excluded)
        for s in o.samples:
            if len(self.samples) < 3 * self.MAX_SAMPLES:
                self.samples.append(s)
        self.failures.extend(o.failures)
        for k, v in o.notes.items():
            if isinstance(v, (int, float)) and isinstance(self.notes.get(k), (int, float)):
                self.notes[k] += v
            else:
                self.notes[k] = v
        for k, v in o.sets.items():
            self.sets.setdefault(k, set()).update(v)
        self.budget_exhausted = self.budget_exhausted or o.budget_exhausted
        return self


def _plain_call(fn, arg):
    return fn(arg)


def _make_big_frame():
    """Performance only.  CPython 3.11+ keeps frames in 16 KiB 'data stack
    chunks' that are mmap'ed/munmap'ed whenever the call depth crosses a chunk
    boundary; recursive generators + Hypothesis cross it ~12 times per case
    and munmap is very slow under load in this VM.  Calling the shard through
    a function whose frame needs > 1 MiB makes CPython allocate one 2 MiB
    chunk that all nested frames then live in."""
    import types

    try:
        n = 140000
        names = ("fn", "arg") + tuple("_pad%d" % i for i in range(n))
        code = _plain_call.__code__.replace(co_varnames=names, co_nlocals=len(names))
        f = types.FunctionType(code, globals())
        f(lambda a: a, 0)
        return f
    except Exception:  # noqa: BLE001 - optimisation only
        return _plain_call


_big_frame_call = None


def _shard_entry(arg):
    global _big_frame_call
    fn, item = arg
    if _big_frame_call is None:
        _big_frame_call = _make_big_frame()
    try:
        return ("ok", _big_frame_call(fn, item))
    except CheckFailure as e:  # an oracle raised outside a collecting loop
        st = Stats()
        st.failures.append(e.failure)
        return ("ok", st)
    except BaseException as e:  # noqa: BLE001 - reported as harness error
        return ("err", "%s\n%s" % (repr(e), traceback.format_exc()))


class Ctx:
    def __init__(self, prop, tier, seed, here, repo, collect=False):
        self.prop = prop
        self.tier = tier
        self.seed = seed
        self.here = here
        self.repo = repo
        self.collect = collect
        self.stats = Stats()
        self.t0 = time.time()
        self.exhaustive = None
        self.extra = {}
        self.assumptions = []
        self.known_printed = []

    @property
    def quick(self):
        return self.tier == "quick"

    def pick(self, quick, thorough):
        return quick if self.tier == "quick" else thorough

    def elapsed(self):
        return time.time() - self.t0

    def map(self, fn, items, chunksize=1):
        """Run fn(item) -> Stats over a process pool; merge into ctx.stats."""
        items = list(items)
        if not items:
            return
        nproc = min(NPROC, len(items))
        if nproc <= 1 or os.environ.get("VERIF_NOPOOL"):
            results = [_shard_entry((fn, it)) for it in items]
        else:
            mp = multiprocessing.get_context("fork")
            with mp.Pool(nproc) as pool:
                results = list(pool.imap_unordered(_shard_entry, [(fn, it) for it in items], chunksize))
        for kind, val in results:
            if kind == "err":
                raise HarnessError("worker failed: " + val)
            self.stats.merge(val)
        if os.environ.get("VERIF_DEBUG"):
            sys.stderr.write("[%s] %s: %d items, t=%.1fs, evaluations=%d\n" % (self.prop, getattr(fn, "__name__", fn), len(items), self.elapsed(), self.stats.evaluations))

    def shard_seeds(self, n, salt=0):
        return [(self.seed * 1000003 + salt * 7919 + i) % (2**63) for i in range(n)]


# ---------------------------------------------------------------------------
# Hypothesis driver
# ---------------------------------------------------------------------------
def hyp_search(body, seed, max_examples, stats, shrink_seconds=20.0, stateful_steps=None):
    """Run body(chooser) max_examples times under Hypothesis with the given
    seed.  body raises CheckFailure on violation.  The smallest failing case
    seen (by length of its rendering) is appended to stats.failures."""
    import hypothesis
    from hypothesis import HealthCheck, Phase, given, settings
    from hypothesis import strategies as st
    from .choose import Chooser

    seen = []
    first_fail_t = [None]

    @hypothesis.seed(seed)
    @settings(
        max_examples=max_examples,
        database=None,
        deadline=None,
        derandomize=False,
        report_multiple_bugs=False,
        suppress_health_check=list(HealthCheck),
        phases=[Phase.generate, Phase.shrink],
        print_blob=False,
    )
    @given(st.data())
    def test(data):
        if first_fail_t[0] is not None and time.time() - first_fail_t[0] > shrink_seconds:
            return  # shrink budget used up: let Hypothesis wind down
        try:
            body(Chooser(data))
        except CheckFailure as e:
            if first_fail_t[0] is None:
                first_fail_t[0] = time.time()
            seen.append(e.failure)
            raise

    try:
        test()
    except CheckFailure:
        pass
    except HarnessError:
        raise
    except BaseException as e:  # noqa: BLE001
        if not seen:
            if type(e).__name__ in ("Flaky", "FlakyFailure", "Unsatisfiable") and False:
                pass
            raise HarnessError("hypothesis run failed: %r\n%s" % (e, traceback.format_exc()))
    if seen:
        best = min(seen, key=lambda f: (len(f["text"] or ""), len(repr(f["case"]))))
        stats.failures.append(best)
    return stats


# ---------------------------------------------------------------------------
# Known findings
# ---------------------------------------------------------------------------
class Finding:
    def __init__(self, kind, fields, rest):
        self.kind = kind  # 'finding' | 'fixed'
        self.fields = fields
        self.rest = rest
        self.prop = fields.get("property")
        self.fid = fields.get("id")
        self.replay = fields.get("replay")
        self.predicate = fields.get("predicate")


def load_findings(here):
    path = os.path.join(here, "KNOWN_FINDINGS.txt")
    out = []
    if not os.path.exists(path):
        return out
    for line in open(path, encoding="utf-8"):
        line = line.strip()
        if not line or line.startswith("#"):
            continue
        kind, _, rest = line.partition(":")
        kind = kind.strip()
        if kind not in ("finding", "fixed"):
            continue
        fields = {}
        words = rest.split()
        i = 0
        while i < len(words) and "=" in words[i] and words[i].split("=")[0] in ("property", "id", "replay", "predicate", "feature", "commit"):
            k, v = words[i].split("=", 1)
            fields[k] = v
            i += 1
        out.append(Finding(kind, fields, " ".join(words[i:])))
    return out


def load_replay(path):
    with open(path, encoding="utf-8") as f:
        d = json.load(f)
    d["case"] = ast.literal_eval(d["case_repr"])
    return d


def write_replay(here, prop, failure, subdir="new"):
    d = os.path.join(here, "replays", subdir)
    if os.environ.get("VERIF_EVIDENCE_DIR"):  # sensitivity runs against scratch copies
        d = os.path.join(os.environ["VERIF_EVIDENCE_DIR"], "replays")
    os.makedirs(d, exist_ok=True)
    body = dict(
        property=prop,
        subcheck=failure["subcheck"],
        case_repr=repr(failure["case"]),
        text=failure["text"],
        detail=failure["detail"],
        sig=failure["sig"],
    )
    name = "%s-%s-%016x.json" % (prop, failure["subcheck"], h64((failure["subcheck"], body["case_repr"])))
    path = os.path.join(d, name)
    with open(path, "w", encoding="utf-8") as f:
        json.dump(body, f, indent=1, ensure_ascii=True)
    return os.path.relpath(path, here)


def run_replay(mod, rep):
    """Re-execute a stored case through the plain oracle.  Returns a failure
    dict or None."""
    try:
        mod.replay(rep["subcheck"], rep["case"])
    except CheckFailure as e:
        return e.failure
    return None


# ---------------------------------------------------------------------------
def write_evidence(ctx, mod, violations, wall):
    st = ctx.stats
    distinct = st.nontrivial + len(st.nt_hashes)
    cov = dict(
        evaluations=int(st.evaluations),
        distinct_nontrivial=int(distinct),
        rule=getattr(mod, "RULE", ""),
        samples=st.samples[:12],
        classes=dict(sorted(st.classes.items())),
        excluded_by_finding=dict(sorted(st.excluded.items())),
        known_findings_reproduced=ctx.known_printed,
        budget_exhausted=bool(st.budget_exhausted),
    )
    if ctx.exhaustive is not None:
        cov["exhaustive"] = bool(ctx.exhaustive)
    for k, v in st.notes.items():
        cov[k] = v
    for k, v in st.sets.items():
        cov[k + "_count"] = len(v)
    cov.update(ctx.extra)
    ev = dict(
        property_id=ctx.prop,
        tier=ctx.tier,
        seed=int(ctx.seed),
        level="exploration",
        coverage=cov,
        assumptions=list(getattr(mod, "ASSUMPTIONS", [])) + ctx.assumptions,
        wall_s=round(wall, 2),
        violations=int(violations),
    )
    d = os.environ.get("VERIF_EVIDENCE_DIR") or os.path.join(ctx.here, "evidence")
    os.makedirs(d, exist_ok=True)
    tmp = os.path.join(d, ctx.prop + ".json.tmp")
    with open(tmp, "w", encoding="utf-8") as f:
        json.dump(ev, f, indent=1, ensure_ascii=True, default=str)
    os.replace(tmp, os.path.join(d, ctx.prop + ".json"))


def main(argv, here, repo):
    import argparse

    ap = argparse.ArgumentParser()
    ap.add_argument("prop")
    ap.add_argument("--tier", default=None)
    ap.add_argument("--replay", default=None)
    ap.add_argument("--collect", action="store_true")
    ap.add_argument("--seed", type=int, default=None)
    a = ap.parse_args(argv)
    prop = a.prop.upper()
    tier = a.tier or os.environ.get("VERIF_TIER") or "quick"
    if tier not in ("quick", "thorough"):
        print("bad tier", tier)
        return 2
    try:
        seed = a.seed if a.seed is not None else int(os.environ.get("VERIF_SEED", "1") or "1")
    except ValueError:
        seed = 1

    t0 = time.time()
    try:
        try:
            # imported in the parent so that forked workers share its pages
            import hypothesis  # noqa: F401
            import hypothesis.strategies  # noqa: F401
            import hypothesis.internal.conjecture.engine  # noqa: F401
        except ImportError:
            _install_deps(here)
        import pycparser

        pf = os.path.realpath(pycparser.__file__)
        if not pf.startswith(os.path.realpath(repo) + os.sep):
            raise HarnessError("pycparser imported from %s, not from %s" % (pf, repo))
        mod = importlib.import_module("vlib.props." + prop.lower())

        if a.replay:
            rep = load_replay(a.replay if os.path.isabs(a.replay) else os.path.join(os.getcwd(), a.replay))
            f = run_replay(mod, rep)
            if f is None:
                print("replay passes: property=%s %s" % (prop, a.replay))
                return 0
            print("replay fails: %s sig=%s\n  text: %s\n  detail: %s" % (f["subcheck"], f["sig"], (f["text"] or "")[:2000], f["detail"][:2000]))
            print("VIOLATION property=%s replay=%s" % (prop, a.replay))
            return 1

        ctx = Ctx(prop, tier, seed, here, repo, collect=a.collect)
        violations = []

        # --- replay tier: known findings and regression replays -------------
        findings = [f for f in load_findings(here) if f.prop == prop]
        live = []
        for f in findings:
            if f.kind != "finding":
                continue
            live.append(f)
            if not f.replay:
                continue
            rep = load_replay(os.path.join(here, f.replay))
            got = run_replay(mod, rep)
            if got is None:
                continue  # no longer reproduces: print nothing
            if got["sig"] == rep["sig"]:
                msg = "KNOWN-FINDING: property=%s id=%s %s" % (prop, f.fid, f.rest)
                print(msg)
                ctx.known_printed.append("%s %s" % (f.fid, f.rest))
            else:
                got["detail"] = "known-finding replay %s now fails differently (was %s): %s" % (f.replay, rep["sig"], got["detail"])
                violations.append(got)
        regdir = os.path.join(here, "replays", "regress")
        if os.path.isdir(regdir):
            for name in sorted(os.listdir(regdir)):
                if not name.startswith(prop + "-") or not name.endswith(".json"):
                    continue
                rep = load_replay(os.path.join(regdir, name))
                got = run_replay(mod, rep)
                ctx.stats.evaluations += 1
                if got is not None:
                    print("regression replay fails: %s" % name)
                    print("VIOLATION property=%s replay=%s" % (prop, os.path.join("replays", "regress", name)))
                    violations.append(None)

        # --- main search ----------------------------------------------------
        mod.run(ctx)

        preds = getattr(mod, "PREDICATES", {})
        seen = set()
        for f in ctx.stats.failures:
            key = (f["subcheck"], repr(f["case"]))
            if key in seen:
                continue
            seen.add(key)
            matched = None
            for kf in live:
                p = preds.get(kf.predicate) if kf.predicate else None
                if p is not None and p(f):
                    matched = kf
                    break
            if matched is not None:
                ctx.stats.excluded["finding:" + str(matched.fid)] += 1
                continue
            violations.append(f)

        nviol = 0
        shown = 0
        for f in violations:
            nviol += 1
            if f is None:
                continue
            path = write_replay(here, prop, f)
            if shown < 25:
                shown += 1
                print("violation %s sig=%s\n  text: %s\n  detail: %s" % (f["subcheck"], f["sig"], (f["text"] or "")[:1500].replace("\n", "\n        "), f["detail"][:1500]))
            print("VIOLATION property=%s replay=%s" % (prop, path))
        wall = time.time() - t0
        write_evidence(ctx, mod, nviol, wall)
        st = ctx.stats
        print(
            "%s tier=%s seed=%d evaluations=%d distinct_nontrivial=%d violations=%d wall=%.1fs%s"
            % (prop, tier, seed, st.evaluations, st.nontrivial + len(st.nt_hashes), nviol, wall, " (budget exhausted)" if st.budget_exhausted else "")
        )
        if a.collect:
            buckets = collections.defaultdict(list)
            for f in ctx.stats.failures:
                buckets[(f["subcheck"], f["sig"])].append(f)
            for k, v in sorted(buckets.items(), key=lambda kv: -len(kv[1])):
                best = min(v, key=lambda f: len(f["text"] or ""))
                print("BUCKET %d %s\n    %r\n    %s" % (len(v), k, best["text"], best["detail"][:300]))
        return 1 if nviol else 0
    except HarnessError as e:
        print("HARNESS-ERROR property=%s %s" % (prop, e))
        return 2
    except Exception as e:  # noqa: BLE001
        print("HARNESS-ERROR property=%s %r" % (prop, e))
        traceback.print_exc()
        return 2


def _install_deps(here):
    import subprocess

    deps = os.path.join(here, ".deps")
    subprocess.call(
        [sys.executable, "-m", "pip", "install", "-q", "--no-index", "--find-links", "/opt/veriftools/wheels", "--target", deps, "hypothesis"],
        stdout=subprocess.DEVNULL,
        stderr=subprocess.DEVNULL,
    )
    if deps not in sys.path:
        sys.path.append(deps)
    import hypothesis  # noqa: F401
