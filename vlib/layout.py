"""Layout of token lists into source text with provenance (DESIGN.md 2.2):
every token gets the (file, line, column) at which it really starts, where
file/line are those established by the most recent linemarker."""
from . import reflex


class Laid:
    __slots__ = ("text", "pos", "nmarkers", "nfilechanges", "inside_markers", "extra", "ncollisions", "no_final_newline")

    def __init__(self):
        self.text = ""
        self.pos = []  # per token: (file, line, col)
        self.nmarkers = 0
        self.nfilechanges = 0
        self.inside_markers = []  # token indices directly preceded by a linemarker
        self.ncollisions = 0
        self.no_final_newline = False
        self.extra = {}  # further token starts: position -> indices of the owning tokens (pragma strings; two pragmas can be re-based onto the same line)


WS = [" ", " ", "  ", "\t", "\n", "\n  ", " \n\t", "\n\n", " \t "]
# ("" is a file name too: '#line 5 ""' returns to an unnamed main input)
MARKER_FILES = ["f.c", "g.h", "dir/h.h", "a b.c", ""]
MARKER_FORMS = ['# %d "%s"', '#line %d "%s"', '# %d "%s" 1', '# %d "%s" 2 3', '  #  %d "%s"', "# %d", "#line %d", "#\tline %d"]


def lay_out(toks, c, style="random", filename="f.c", marker_p=0.08, file_change=True, adjacency=True, span=None, collide_p=0.03):
    """toks: list of objects with .s (spelling) and .line (own-line pragma).
    c: Chooser (None for the plain style).  Returns Laid."""
    out = Laid()
    parts = []
    st = dict(file=filename, line=1, col=1, bol=True)
    run = []

    def emit(s):
        parts.append(s)
        for ch in s:
            if ch == "\n":
                st["line"] += 1
                st["col"] = 1
                st["bol"] = True
            else:
                st["col"] += 1
                st["bol"] = False

    def newline_if_needed():
        if not st["bol"]:
            emit("\n")

    prev = None
    style0 = style
    for i, t in enumerate(toks):
        # outside the chosen span the layout is plain (keeps the number of
        # random choices bounded for very long token lists)
        style = style0 if span is None or span[0] <= i < span[1] else "plain"
        if t.line:
            # '#pragma ...' line: own line, kept intact
            newline_if_needed()
            lead = "" if style != "random" else c.choice(["", "", " ", "\t"])
            emit(lead)
            # blanks may stand between '#' and 'pragma'; the PPPRAGMA token starts at 'pragma'
            gap = "" if style != "random" else c.choice(["", "", "", " ", "\t", "  "])
            out.pos.append((st["file"], st["line"], st["col"] + 1 + len(gap)))
            # the text after 'pragma' is a token of its own (PPPRAGMASTR)
            rest = t.s[len("#pragma") :]
            if rest.strip(" \t"):
                lead_ws = len(rest) - len(rest.lstrip(" \t"))
                out.extra.setdefault((st["file"], st["line"], st["col"] + len("#pragma") + len(gap) + lead_ws), []).append(len(out.pos) - 1)
            emit("#" + gap + t.s[1:])
            # the last line of the input need not end in a newline
            if not (style == "random" and i == len(toks) - 1 and c.chance(0.5)):
                emit("\n")
            else:
                out.no_final_newline = True
            prev = None
            run = []
            continue
        marker = False
        if style == "random" and collide_p and len(out.pos) > 0 and c.chance(collide_p):
            # a linemarker that re-bases the NEXT token onto the (line, column) - and
            # in half of the cases the file - of an EARLIER token, preferably one with
            # the same spelling: two different tokens then carry identical positions
            same = [j for j in range(len(out.pos)) if not toks[j].line and toks[j].s == t.s]
            j = c.choice(same) if same and c.chance(0.7) else c.int(max(0, len(out.pos) - 6), len(out.pos) - 1)
            tf, tl, tc = out.pos[j]
            if not toks[j].line:
                newline_if_needed()
                fn = tf if c.chance(0.5) else c.choice(MARKER_FILES)
                parts.append('# %d "%s"\n' % (tl, fn))
                if fn != st["file"]:
                    out.nfilechanges += 1
                st["file"] = fn
                st["line"] = tl
                st["col"] = 1
                st["bol"] = True
                emit(" " * (tc - 1))
                out.nmarkers += 1
                out.ncollisions += 1
                out.inside_markers.append(i)
                out.pos.append((st["file"], st["line"], st["col"]))
                emit(t.s)
                run = [t.s]
                prev = t.s
                continue
        if style == "random" and marker_p and c.chance(marker_p):
            newline_if_needed()
            form = c.choice(MARKER_FORMS)
            nl = c.int(1, 9999)
            if "%s" in form:
                fn = c.choice(MARKER_FILES) if file_change else st["file"]
                parts.append(form % (nl, fn) + "\n")
                if fn != st["file"]:
                    out.nfilechanges += 1
                st["file"] = fn
            else:
                parts.append(form % nl + "\n")
            st["line"] = nl
            st["col"] = 1
            st["bol"] = True
            out.nmarkers += 1
            marker = True
            prev = None
            run = []
        if style == "plain":
            ws = "" if prev is None else " "
        elif style == "lines":
            ws = "" if st["bol"] else "\n"
        elif style == "single":
            ws = "" if prev is None else " "
            if adjacency and prev is not None and reflex.pp_tokens("".join(run) + t.s) == run + [t.s]:
                ws = ""
        else:
            ws = c.choice(WS) if not adjacency else c.choice(WS + ["", "", ""])
            if ws == "" and prev is not None and reflex.pp_tokens("".join(run) + t.s) != run + [t.s]:
                ws = " "
        if ws != "" or prev is None:
            run = []
        # a '#' token at the start of a line position is fine for the lexer
        emit(ws)
        if marker:
            out.inside_markers.append(i)
        out.pos.append((st["file"], st["line"], st["col"]))
        emit(t.s)
        run.append(t.s)
        prev = t.s
    if style0 == "random" and c.chance(0.5):
        emit("\n")
    out.text = "".join(parts)
    return out
