"""Reference lexer: an independent statement of C's lexical grammar
(C99 6.4) as a longest-match pp-tokenizer plus classifiers.  Nothing here
imports pycparser.  DESIGN.md 2.4.
"""
import re

KEYWORDS = (
    "auto break case char const continue default do double else enum extern float for goto if inline int long "
    "register offsetof restrict return short signed sizeof static struct switch typedef union unsigned void "
    "volatile while __int128 _Bool _Complex _Noreturn _Thread_local _Static_assert _Atomic _Alignof _Alignas _Pragma"
).split()


def keyword_class(k):
    # pycparser names keyword token classes by upper-casing the spelling
    return k.upper()


KWTYPE = {k: keyword_class(k) for k in KEYWORDS}

PUNCT = {
    "...": "ELLIPSIS", "<<=": "LSHIFTEQUAL", ">>=": "RSHIFTEQUAL", "++": "PLUSPLUS", "--": "MINUSMINUS",
    "->": "ARROW", "&&": "LAND", "||": "LOR", "<<": "LSHIFT", ">>": "RSHIFT", "<=": "LE", ">=": "GE",
    "==": "EQ", "!=": "NE", "*=": "TIMESEQUAL", "/=": "DIVEQUAL", "%=": "MODEQUAL", "+=": "PLUSEQUAL",
    "-=": "MINUSEQUAL", "&=": "ANDEQUAL", "|=": "OREQUAL", "^=": "XOREQUAL", "=": "EQUALS", "+": "PLUS",
    "-": "MINUS", "*": "TIMES", "/": "DIVIDE", "%": "MOD", "|": "OR", "&": "AND", "~": "NOT", "^": "XOR",
    "!": "LNOT", "<": "LT", ">": "GT", "?": "CONDOP", "(": "LPAREN", ")": "RPAREN", "[": "LBRACKET",
    "]": "RBRACKET", "{": "LBRACE", "}": "RBRACE", ",": "COMMA", ".": "PERIOD", ";": "SEMI", ":": "COLON",
}  # fmt: skip
# 6.4.6 punctuators incl. digraphs, plus the comment openers (so that adjacency
# that would form them is refused)
REFPUNCT = sorted(list(PUNCT) + ["<:", ":>", "<%", "%>", "%:", "%:%:", "/*", "//", "##", "#"], key=len, reverse=True)

PPNUM = re.compile(r"\.?[0-9](?:[eEpP][+-]|[0-9a-zA-Z_.])*")
IDRE = re.compile(r"[A-Za-z_$][A-Za-z0-9_$]*")
CHRE = re.compile(r"(?:L|u8|u|U)?'(?:[^'\\\n]|\\.)*'")
STRE = re.compile(r'(?:L|u8|u|U)?"(?:[^"\\\n]|\\.)*"')


def pp_tokens(s):
    """Longest-match pp-tokenizer over text without whitespace handling:
    returns the list of spellings, skipping blanks, or None if some character
    starts no pp-token."""
    out = []
    i = 0
    n = len(s)
    while i < n:
        ch = s[i]
        if ch in " \t\n":
            i += 1
            continue
        m = CHRE.match(s, i) or STRE.match(s, i)
        if m:
            out.append(m.group())
            i = m.end()
            continue
        m = PPNUM.match(s, i)
        if m:
            out.append(m.group())
            i = m.end()
            continue
        m = IDRE.match(s, i)
        if m:
            out.append(m.group())
            i = m.end()
            continue
        for p in REFPUNCT:
            if s.startswith(p, i):
                out.append(p)
                i += len(p)
                break
        else:
            return None
    return out


_adj_cache = {}


def adjacent_ok(a, b):
    """May token b directly follow token a without whitespace?  Only when
    re-tokenising the concatenation gives back exactly the two tokens."""
    k = (a, b)
    r = _adj_cache.get(k)
    if r is None:
        r = _adj_cache[k] = pp_tokens(a + b) == [a, b]
    return r


# ---------------------------------------------------------------------------
# classifiers
# ---------------------------------------------------------------------------
SUF = r"(?:[uU](?:ll|LL|[lL])?|(?:ll|LL|[lL])[uU]?)?"
_NUM = [
    ("INT_CONST_DEC", re.compile(r"[1-9][0-9]*" + SUF)),
    ("INT_CONST_OCT", re.compile(r"0[0-7]*" + SUF)),
    ("INT_CONST_HEX", re.compile(r"0[xX][0-9a-fA-F]+" + SUF)),
    ("FLOAT_CONST", re.compile(r"(?:(?:[0-9]*\.[0-9]+|[0-9]+\.)(?:[eE][+-]?[0-9]+)?|[0-9]+[eE][+-]?[0-9]+)[fFlL]?")),
    ("HEX_FLOAT_CONST", re.compile(r"0[xX](?:[0-9a-fA-F]*\.[0-9a-fA-F]+|[0-9a-fA-F]+\.?)[pP][+-]?[0-9]+[fFlL]?")),
]
_NUM_EXT = [("INT_CONST_BIN", re.compile(r"0[bB][01]+" + SUF))]

# Escape sequences take the longest possible digit run (C99 6.4.4.4p7: an
# octal escape has at most three digits, a hexadecimal one has no limit).
STRICT_ESC = r"\\(?:['\"?\\abfnrtv]|[0-7]{3}|[0-7]{1,2}(?![0-7])|x[0-9a-fA-F]+(?![0-9a-fA-F]))"
# documented leniency: backslash + any letter, any digit run, or one of ._~!=&^-
LENIENT_ESC = r"\\(?:[a-wyzA-Z._~!=&^\-\\?'\"]|x(?![0-9a-fA-F])|[0-9]+(?![0-9])|x[0-9a-fA-F]+(?![0-9a-fA-F]))"


def _mk(esc, prefixes):
    cchar = r"(?:[^'\\\n]|" + esc + ")"
    schar = r'(?:[^"\\\n]|' + esc + ")"
    t = {"CHAR_CONST": re.compile("'" + cchar + "'"), "INT_CONST_CHAR": re.compile("'" + cchar + "{2,4}'"), "STRING_LITERAL": re.compile('"' + schar + '*"')}
    names = {"L": ("WCHAR_CONST", "WSTRING_LITERAL"), "u8": ("U8CHAR_CONST", "U8STRING_LITERAL"), "u": ("U16CHAR_CONST", "U16STRING_LITERAL"), "U": ("U32CHAR_CONST", "U32STRING_LITERAL")}
    for p in prefixes:
        cn, sn = names[p]
        t[cn] = re.compile(p + "'" + cchar + "'")
        t[sn] = re.compile(p + '"' + schar + '*"')
    return t


# strict: C99 exactly (only the L prefix; u8 character constants are C2x)
_STRICT_Q = _mk(STRICT_ESC, ["L"])
_LENIENT_Q = _mk(LENIENT_ESC, ["L", "u8", "u", "U"])


def classify(s, lenient=False):
    """Set of token classes the spelling s has as ONE literal token."""
    out = set()
    for k, r in _NUM + (_NUM_EXT if lenient else []):
        if r.fullmatch(s):
            out.add(k)
    for k, r in (_LENIENT_Q if lenient else _STRICT_Q).items():
        if r.fullmatch(s):
            out.add(k)
    return out


def token_class(spelling, typedefs=()):
    """Class of a well-formed token spelling (used to build expectations for
    generated token sequences)."""
    if spelling in KWTYPE:
        return KWTYPE[spelling]
    if spelling in PUNCT:
        return PUNCT[spelling]
    if IDRE.fullmatch(spelling):
        return "TYPEID" if spelling in typedefs else "ID"
    c = classify(spelling, lenient=True)
    if len(c) == 1:
        return next(iter(c))
    return None


def int_type(spelling):
    """Type C (and pycparser's documentation) assigns to an integer literal
    by its suffix: 'unsigned '*u + 'long '*l + 'int'."""
    m = re.search(r"[uUlL]*$", spelling)
    suf = m.group() if not spelling.startswith("'") else ""
    u = sum(1 for c in suf if c in "uU")
    l = sum(1 for c in suf if c in "lL")
    return "unsigned " * u + "long " * l + "int"


def float_type(spelling):
    if spelling[-1] in "fF" and not (spelling[:2].lower() == "0x" and "p" not in spelling.lower()):
        return "float"
    if spelling[-1] in "lL":
        return "long double"
    return "double"


# ---------------------------------------------------------------------------
# splitting preprocessed text into tokens + directive lines (corpus use)
# ---------------------------------------------------------------------------
_DIRECTIVE = re.compile(r"[ \t]*#[^\n]*")


def split_source(text):
    """Split preprocessed C text into items: ('tok', spelling) and
    ('line', whole directive line without newline).  Returns None if a line
    cannot be tokenised."""
    items = []
    for line in text.split("\n"):
        if _DIRECTIVE.fullmatch(line):
            items.append(("line", line))
            continue
        toks = pp_tokens(line)
        if toks is None:
            return None
        items.extend(("tok", t) for t in toks)
    return items


def join_items(items):
    """Render items one token per blank, directive lines on their own line."""
    out = []
    cur = []
    for kind, s in items:
        if kind == "line":
            if cur:
                out.append(" ".join(cur))
                cur = []
            out.append(s)
        else:
            cur.append(s)
    if cur:
        out.append(" ".join(cur))
    return "\n".join(out) + "\n"
