"""parse . generate . parse = parse (C07), shared with other checks."""
from pycparser import c_ast, c_generator, c_parser

from .astdump import diff_sig, dump, first_difference
from .oracle import parse_outcome
from .runner import fail


def node_pairs(ast):
    """set of (parent class, slot, child class) of an AST"""
    out = set()
    stack = [ast]
    while stack:
        n = stack.pop()
        pc = type(n).__name__
        for name, ch in n.children():
            slot = name.split("[")[0]
            out.add((pc, slot, type(ch).__name__))
            stack.append(ch)
    return out


def roundtrip(src, reduce_parens, subcheck, case, filename="f.c", ast=None):
    """raises CheckFailure; returns (ast1, generated text)"""
    if ast is None:
        out = parse_outcome(src, filename, (filename,))
        if out[0] != "ast":
            return None, None  # not an accepted program: no claim
        ast = out[1]
    try:
        g = c_generator.CGenerator(reduce_parentheses=reduce_parens).visit(ast)
    except RecursionError:
        return ast, None
    except Exception as e:  # noqa: BLE001
        fail(subcheck, case, src, "CGenerator(reduce_parentheses=%s) raised %s: %s" % (reduce_parens, type(e).__name__, str(e)[:200]), "genexc:" + type(e).__name__)
    out2 = parse_outcome(g, filename, (filename,))
    if out2[0] != "ast":
        fail(subcheck, case, src, "generated text does not parse (%s): %r\n--- generated ---\n%s" % (out2[0], out2[1:], g[:1500]), "reparse:" + ("rejected" if out2[0] == "perr" else out2[1]))
    d1 = dump(ast)
    d2 = dump(out2[1])
    if d1 != d2:
        fail(subcheck, case, src, "second AST differs at %s\n--- generated ---\n%s" % (first_difference(d1, d2), g[:1500]), "rt" + diff_sig(d1, d2))
    try:
        g2 = c_generator.CGenerator(reduce_parentheses=reduce_parens).visit(out2[1])
    except Exception as e:  # noqa: BLE001
        fail(subcheck, case, src, "generating from the second AST raised %s" % type(e).__name__, "genexc2:" + type(e).__name__)
    if g2 != g:
        fail(subcheck, case, src, "generating from the second AST gives different text\n--- first ---\n%s\n--- second ---\n%s" % (g[:800], g2[:800]), "regen-differs")
    return ast, g
