"""Canonical dump of c_ast trees (DESIGN.md 2.1).

dump(node) walks __slots__ (minus __weakref__, minus coord unless asked) and
recurses into nodes and lists wherever they occur - including inside
attribute slots (Decl.align holds Alignas nodes, Pragma.string may hold a
Constant).  The result is nested tuples/lists; equality of dumps is "equal in
every node class, attribute and child".
"""
from pycparser import c_ast


def dump(n, coords=False):
    if isinstance(n, c_ast.Node):
        out = [type(n).__name__]
        for s in n.__slots__:
            if s == "__weakref__":
                continue
            if s == "coord":
                if coords:
                    c = n.coord
                    out.append(("coord", None if c is None else (getattr(c, "file", None), getattr(c, "line", None), getattr(c, "column", None))))
                continue
            out.append((s, dump(getattr(n, s), coords)))
        return tuple(out)
    if isinstance(n, (list, tuple)):
        return [dump(x, coords) for x in n]
    return n


def first_difference(a, b, path=()):
    """Path (tuple of slot names / indices) to the first mismatch, or None."""
    if type(a) is not type(b):
        return path + ("<type %s vs %s>" % (type(a).__name__, type(b).__name__),)
    if isinstance(a, tuple):
        if a and b and isinstance(a[0], str) and isinstance(b[0], str) and len(a) == 2 and len(b) == 2 and a[0] == b[0] and not _is_node(a):
            # (slot, value) pair
            return first_difference(a[1], b[1], path + (a[0],))
        if _is_node(a) or _is_node(b):
            if not (_is_node(a) and _is_node(b)) or a[0] != b[0]:
                return path + ("<class %s vs %s>" % (a[0] if a else a, b[0] if b else b),)
            for x, y in zip(a[1:], b[1:]):
                d = first_difference(x, y, path + (a[0],))
                if d is not None:
                    return d
            if len(a) != len(b):
                return path + ("<slots>",)
            return None
        if a != b:
            return path + ("<tuple>",)
        return None
    if isinstance(a, list):
        for i, (x, y) in enumerate(zip(a, b)):
            d = first_difference(x, y, path + (i,))
            if d is not None:
                return d
        if len(a) != len(b):
            return path + ("<len %d vs %d>" % (len(a), len(b)),)
        return None
    if a != b:
        return path + ("<%r vs %r>" % (a, b),)
    return None


def _is_node(t):
    return isinstance(t, tuple) and len(t) >= 1 and isinstance(t[0], str) and t[0][:1].isupper() and all(isinstance(x, tuple) and len(x) == 2 for x in t[1:])


def diff_sig(a, b):
    """Signature of a dump mismatch made only of public AST names."""
    d = first_difference(a, b)
    if d is None:
        return None
    names = [str(x) for x in d if isinstance(x, str) and not x.startswith("<")]
    return "diff:" + "/".join(names[-4:])


def walk(n):
    """Preorder walk over c_ast nodes following __slots__ (all slots)."""
    if isinstance(n, c_ast.Node):
        yield n
        for s in n.__slots__:
            if s in ("__weakref__", "coord"):
                continue
            yield from walk(getattr(n, s))
    elif isinstance(n, (list, tuple)):
        for x in n:
            yield from walk(x)
