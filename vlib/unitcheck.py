"""Model-vs-parser oracle shared by C02, C03, C05 (and reused by C01/C11):
render a model translation unit, parse it, compare the AST with the AST the
model expects."""
from . import cmodel as M
from . import gen
from .astdump import diff_sig, dump, first_difference
from .oracle import parse_outcome
from .runner import fail

PRELUDE = gen.PRELUDE
NPRE = gen.PRELUDE_NEXT


def unit_text(tu, mode="min", paren=None):
    r = M.Renderer(mode, paren)
    r.unit(tu)
    return PRELUDE + "\n" + M.text_of(r.toks)


def check_unit(tu, mode="min", paren=None, subcheck="ast", case=None):
    """raises CheckFailure when the parser's AST differs from the expected one"""
    src = unit_text(tu, mode, paren)
    out = parse_outcome(src, "f.c", ("f.c",))
    if out[0] != "ast":
        sig = "rejected" if out[0] == "perr" else out[1]
        fail(subcheck, case if case is not None else (tu, mode), src, "parser outcome: %s" % (out[1:],), sig)
    got = M.normalize(dump(out[1]))
    got = ("FileAST", ("ext", got[1][1][NPRE:]))
    exp = M.normalize(M.Expect().unit(tu))
    if got != exp:
        fd = first_difference(got, exp)
        fail(subcheck, case if case is not None else (tu, mode), src, "first difference (got vs expected) at %s" % (fd,), diff_sig(got, exp))
    return src, out[1]


# ---------------------------------------------------------------------------
# contexts embedding an expression into a translation unit
# ---------------------------------------------------------------------------
def _fn(items):
    return ("tu", [("fdef", [("t", "void")], ("d", "f", [("fn", ("proto", [("param", [("t", "void")], ("d", None, [], None, None, None))], False))], None, None, None), None, ("block", items))])


INT = [("t", "int")]


def ctx_stmt(e):
    return _fn([("expr", e)])


def ctx_init(e):
    return _fn([("decl", INT, [("d", "v", [], ("ie", e), None, None)])])


def ctx_if(e):
    return _fn([("if", e, ("empty",), None)])


def ctx_while(e):
    return _fn([("while", e, ("empty",))])


def ctx_switch(e):
    return _fn([("switch", e, ("empty",))])


def ctx_arg(e):
    return _fn([("expr", ("call", ("id", "g"), [e, ("id", "b")]))])


def ctx_bound(e):
    return _fn([("decl", INT, [("d", "v", [("arr", [], None, e)], None, None, None)])])


def ctx_case(e):
    return _fn([("switch", ("id", "x"), ("block", [("case", e, ("empty",))]))])


def ctx_bits(e):
    return ("tu", [("decl", [("su", "struct", "B", [("decl", INT, [("d", "w", [], None, e, None)])])], [])])


def ctx_enum(e):
    return ("tu", [("decl", [("enum", "En", [("K", e)], False)], [])])


def ctx_return(e):
    return _fn([("return", e)])


def ctx_filescope_init(e):
    return ("tu", [("decl", INT, [("d", "v", [], ("ie", e), None, None)])])


def ctx_label(e):
    return _fn([("label", "L", ("expr", e)), ("goto", "L")])


def ctx_after_case(e):
    return _fn([("switch", ("id", "x"), ("block", [("case", ("const", "1", "int"), ("expr", e)), ("default", ("expr", e))]))])


def ctx_else(e):
    return _fn([("if", ("id", "a"), ("empty",), ("expr", e))])


def ctx_for(e):
    return _fn([("for", ("e", e), e, None, ("empty",))])


def ctx_do(e):
    return _fn([("do", ("expr", e), e)])


EXPR_CONTEXTS = [
    ("statement", ctx_stmt), ("initializer", ctx_init), ("if", ctx_if), ("while", ctx_while), ("switch", ctx_switch),
    ("argument", ctx_arg), ("array_bound", ctx_bound), ("case_label", ctx_case), ("bit_width", ctx_bits),
    ("enumerator", ctx_enum), ("return", ctx_return), ("file_init", ctx_filescope_init),
    ("after_label", ctx_label), ("after_case", ctx_after_case), ("else_branch", ctx_else), ("for_init_and_cond", ctx_for), ("do_body_and_cond", ctx_do),
]  # fmt: skip
