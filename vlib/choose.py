"""Choice source used by every generator.

All random decisions of a generated case go through a Chooser, which draws
from Hypothesis (so cases shrink and replay) - generators never call an RNG of
their own.  Convention: value 0 / first alternative is the *simplest* choice,
because Hypothesis shrinks integers towards 0.
"""
from hypothesis import strategies as st

_INT = {}


def _ints(lo, hi):
    s = _INT.get((lo, hi))
    if s is None:
        s = _INT[(lo, hi)] = st.integers(lo, hi)
    return s


class Chooser:
    __slots__ = ("data", "_cd")

    def __init__(self, data):
        self.data = data
        # ConjectureData.draw_integer is what st.integers() ends up calling;
        # going there directly avoids ~60 us of per-draw reporting overhead in
        # data.draw().  Same choice sequence, so shrinking/replay are unchanged.
        cd = getattr(data, "conjecture_data", None)
        self._cd = cd if hasattr(cd, "draw_integer") else None

    def int(self, lo, hi):
        """integer in [lo, hi], shrinks towards lo"""
        if lo >= hi:
            return lo
        if self._cd is not None:
            return self._cd.draw_integer(lo, hi)
        return self.data.draw(_ints(lo, hi))

    def below(self, n):
        return self.int(0, n - 1)

    def choice(self, seq):
        return seq[self.int(0, len(seq) - 1)]

    def chance(self, p):
        """True with probability ~p; shrinks towards False"""
        if p <= 0:
            return False
        return self.int(0, 999) >= 1000 - int(p * 1000)

    def weighted(self, pairs):
        """pairs: [(weight, value)...]; earlier entries are 'simpler'"""
        total = sum(w for w, _ in pairs)
        k = self.int(0, total - 1)
        for w, v in pairs:
            if k < w:
                return v
            k -= w
        return pairs[-1][1]

    def subset(self, seq, p=0.5):
        return [x for x in seq if self.chance(p)]

    def shuffle(self, seq):
        seq = list(seq)
        out = []
        while seq:
            out.append(seq.pop(self.int(0, len(seq) - 1)))
        return out

    def draw(self, strategy):
        return self.data.draw(strategy)


class RandomChooser:
    """Same interface over a random.Random - used ONLY by the --replay-free
    bulk tools (never by a registered check)."""

    def __init__(self, r):
        self.r = r

    def int(self, lo, hi):
        return lo if lo >= hi else self.r.randint(lo, hi)

    def below(self, n):
        return self.r.randrange(n)

    def choice(self, seq):
        return seq[self.r.randrange(len(seq))]

    def chance(self, p):
        return self.r.random() < p

    def weighted(self, pairs):
        total = sum(w for w, _ in pairs)
        k = self.r.randrange(total)
        for w, v in pairs:
            if k < w:
                return v
            k -= w
        return pairs[-1][1]

    def subset(self, seq, p=0.5):
        return [x for x in seq if self.r.random() < p]

    def shuffle(self, seq):
        seq = list(seq)
        self.r.shuffle(seq)
        return seq
