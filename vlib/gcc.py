"""gcc as an independent oracle (C01, C08)."""
import os
import re
import subprocess

from .runner import HarnessError

SYNTAX_FAMILY = re.compile(
    r"expected .* before|expected expression|expected identifier|expected declaration|expected specifier|unknown type name|stray|missing terminating|"
    r"expected '|expected \"|expected statement|two or more data types|multiple storage classes|both .* in declaration specifiers|"
    r"declaration specifiers|parameter name omitted|expected ';'"
)


def have_gcc():
    try:
        subprocess.run(["gcc", "--version"], capture_output=True, timeout=20)
        return True
    except Exception:  # noqa: BLE001
        return False


def syntax_check(paths, std):
    """gcc -fsyntax-only -pedantic-errors on several files at once.
    Returns {path: [error lines]} (empty list = accepted)."""
    if not paths:
        return {}
    try:
        p = subprocess.run(["gcc", "-std=" + std, "-pedantic-errors", "-fsyntax-only", "-w"] + list(paths), capture_output=True, text=True, timeout=300)
    except FileNotFoundError:
        raise HarnessError("gcc not found")
    out = {x: [] for x in paths}
    for line in p.stderr.splitlines():
        m = re.match(r"(.*?):\d+:\d+: (?:fatal )?error: (.*)", line)
        if m and m.group(1) in out:
            out[m.group(1)].append(m.group(2))
        elif m and len(paths) == 1:
            # linemarkers inside the text make gcc report another file name
            out[paths[0]].append(m.group(2))
    if p.returncode != 0 and not any(out.values()):
        raise HarnessError("gcc failed without per-file errors: %s" % p.stderr[-500:])
    return out


def syntax_errors_of(text, std, workdir, name="probe.c"):
    path = os.path.join(workdir, name)
    with open(path, "w") as f:
        f.write(text)
    errs = syntax_check([path], std)[path]
    # Only the FIRST diagnostic is trusted: after a semantic error (an undeclared
    # identifier in an array bound, "'[*]' not allowed in other than function
    # prototype scope", a function returning an array ...) gcc's parser gives up
    # on the declarator and reports bogus "expected ..." errors.
    syn = [errs[0]] if errs and SYNTAX_FAMILY.search(errs[0]) else []
    return errs, syn


def asm(path, std, opt):
    p = subprocess.run(["gcc", "-std=" + std, "-pedantic-errors", "-w", "-S", opt, "-o", "-", path], capture_output=True, text=True, timeout=300)
    if p.returncode != 0:
        return None, [l for l in p.stderr.splitlines() if "error" in l][:3]
    return "\n".join(l for l in p.stdout.split("\n") if not l.lstrip().startswith((".file", ".ident"))), []
