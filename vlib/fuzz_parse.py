#!/venv/bin/python
"""Coverage-guided campaigns (atheris / libFuzzer) behind C06, C07 and C18.

Run as a script (executable, so that libFuzzer's -merge / -fork can re-invoke it):
    VERIF_FUZZ_STATS=<stats.json> vlib/fuzz_parse.py <corpus-dir>... [libFuzzer flags]
with PYTHONPATH = <repo>:<verif>:<dir holding atheris>.

The bytes are decoded into C text by a small data-provider layer so that the
fuzzer spends its time in the parser, not in the lexer's error rule:

  byte 0 selects the decoding
    even : token mode  - every following byte selects one entry of VOCAB
                         (keywords, punctuators, literals, names, a pragma line,
                         a linemarker); tokens are joined by one blank
    odd  : text mode   - the remaining bytes are the text itself (latin-1)

VERIF_FUZZ_MODE selects the oracle inside the target:
  c06 (default)  FileAST or located ParseError, nothing else;
  c07            an accepted text must survive parse . generate . parse under both
                 generator configurations (failures whose input shows the feature
                 of a listed finding - vlib.props.c07.PREDICATES - are counted as
                 excluded, so the campaign goes on behind them);
  c18            a token-mode input that is certainly not C (a token no C program
                 contains, brackets that do not nest) must be rejected.

The oracle of C06 sits inside the target: CParser().parse(text, 'f.c') returns
a FileAST or raises ParseError whose message starts with a location for a file
name in play.  A failure does NOT stop the campaign: it is bucketed by
signature (exception type + innermost pycparser frame), the smallest text per
bucket is kept, and the parent check re-decides every bucket with its own
oracle in a fresh process.  A fresh CParser per iteration = no state leaks
between iterations.
"""
import json
import os
import sys
import time
import traceback

VOCAB = [
    "int", "char", "void", "long", "unsigned", "double", "_Bool", "T", "T", "x", "y", "f", "typedef", "struct", "union", "enum",
    "const", "volatile", "restrict", "static", "extern", "register", "auto", "inline", "_Noreturn", "_Thread_local",
    "_Atomic", "_Alignas", "_Alignof", "_Static_assert", "_Pragma", "_Generic", "_Complex", "__int128", "sizeof", "offsetof",
    "if", "else", "for", "while", "do", "switch", "case", "default", "goto", "return", "break", "continue",
    "(", ")", "[", "]", "{", "}", ";", ",", ":", "?", "=", "*", "+", "-", "++", "--", ".", "->", "...", "&", "&&", "|", "||",
    "!", "~", "^", "/", "%", "<", ">", "<=", ">=", "==", "!=", "<<", ">>", "+=", "-=", "*=", "<<=", "&=",
    "0", "1", "2", "1u", "1ull", "0x1f", "017", "08", "1.5", "1e3", "1.f", "0x1p3", "'a'", "'\\n'", "L'a'", "u'a'", "'ab'", "''",
    '"s"', '""', 'L"s"', 'u8"s"', 'U"s"', '"\\q"', "#", "@", "$", "`", "\\",
    "\n#pragma p\n", "\n#pragma\n", '\n# 3 "g.c"\n', "\n#line 7\n", '\n# 5 "f.c" 1 3\n', "\n#pragmas\n", "\n# x\n", "/*", "*/", "//", "\n",
    "(", ")", "{", "}", ";", ";", ",", "int", "x", "*", "=", "1",
]  # fmt: skip
FILES = ("f.c", "g.c")
PRELUDE = "typedef int T; "


def decode(data):
    if not data:
        return ""
    body = data[1:4096]
    if data[0] % 2 == 0:
        n = len(VOCAB)
        text = " ".join(VOCAB[b % n] for b in body)
        return PRELUDE + text if data[0] % 4 == 0 else text
    return body.decode("latin-1")


def files_in_play(text):
    """File names a linemarker of the text may set (the lexer's own directive
    grammar: '#' [line] digits '"' chars '"')."""
    import re

    names = set(FILES)
    for m in re.finditer(r'#[ \t]*(?:line[ \t]*)?\d+[ \t]*"([^"\n]*)"', text):
        names.add(m.group(1))
    return tuple(names)


class State:
    def __init__(self, stats_path):
        self.path = stats_path
        self.execs = 0
        self.accepted = 0
        self.rejected = 0
        self.nontrivial = 0
        self.recursion = 0
        self.excluded = {}
        self.seen = set()
        self.buckets = {}
        self.samples = []
        self.t0 = time.time()
        self.last_dump = 0.0

    def dump(self):
        if not self.path:
            return
        d = dict(execs=self.execs, accepted=self.accepted, rejected=self.rejected, distinct_texts=len(self.seen),
                 nontrivial=self.nontrivial, recursion_tolerated=self.recursion, buckets=self.buckets, excluded=self.excluded,
                 samples=self.samples[:6], seconds=round(time.time() - self.t0, 1))  # fmt: skip
        tmp = self.path + ".tmp"
        with open(tmp, "w") as f:
            json.dump(d, f)
        os.replace(tmp, self.path)

    def bucket(self, sig, text, data):
        old = self.buckets.get(sig)
        if old is None or len(text) < len(old["text"]):
            self.buckets[sig] = dict(text=text, data=bytes(data).hex(), count=(old or {}).get("count", 0) + 1)
        else:
            old["count"] += 1
        if old is None and len(self.buckets) <= 400:
            self.dump()  # libFuzzer leaves through exit(): never lose a new bucket


MUST_REJECT = {"@", "`", "\\", "''", "08", "/*", "//", "\n#pragmas\n", "\n# x\n"}
_OPEN = {"(": ")", "[": "]", "{": "}"}
_CLOSE = {")", "]", "}"}


def malformed(tokens):
    """Token-mode inputs only: is the sequence certainly not C?  (a token no C
    program contains, or brackets that do not nest)"""
    stack = []
    for t in tokens:
        if t in MUST_REJECT:
            return "non-token " + repr(t)
        if t in _OPEN:
            stack.append(_OPEN[t])
        elif t in _CLOSE:
            if not stack or stack.pop() != t:
                return "bracket " + t
    return "unclosed bracket" if stack else None


def main():
    stats_path = os.environ.get("VERIF_FUZZ_STATS")
    mode = os.environ.get("VERIF_FUZZ_MODE", "c06")
    argv = sys.argv
    import atheris

    with atheris.instrument_imports(include=["pycparser"]):
        from pycparser import c_ast, c_generator, c_parser
    from vlib.astdump import diff_sig, dump
    from vlib.oracle import has_location

    st = State(stats_path)
    pkg = os.path.dirname(c_parser.__file__)
    c07_predicates = {}
    if mode == "c07":
        from vlib.props import c07

        c07_predicates = c07.PREDICATES

    def where(e):
        tb = traceback.extract_tb(e.__traceback__)
        inner = [f for f in tb if f.filename.startswith(pkg)]
        return "%s:%s" % (os.path.basename(inner[-1].filename), inner[-1].name) if inner else "?"

    def roundtrip(text, ast):
        """C07 inside the target; returns a signature or None"""
        d1 = dump(ast)
        for rp in (False, True):
            try:
                g = c_generator.CGenerator(reduce_parentheses=rp).visit(ast)
            except RecursionError:
                return None
            except Exception as e:  # noqa: BLE001
                return "genexc:%s@%s" % (type(e).__name__, where(e))
            try:
                ast2 = c_parser.CParser().parse(g, "f.c")
            except RecursionError:
                return None
            except c_parser.ParseError:
                return "reparse:rejected"
            except Exception as e:  # noqa: BLE001
                return "reparse:%s" % type(e).__name__
            d2 = dump(ast2)
            if d1 != d2:
                return "rt" + diff_sig(d1, d2)
        return None

    def one(data):
        text = decode(data)
        st.execs += 1
        h = hash(text)
        new = h not in st.seen
        if new:
            st.seen.add(h)
        sig = None
        try:
            ast = c_parser.CParser().parse(text, "f.c")
            if isinstance(ast, c_ast.FileAST):
                st.accepted += 1
                if new and len(ast.ext) > 1:
                    st.nontrivial += 1
                    if len(st.samples) < 6 and len(text) > 30:
                        st.samples.append(text[:160])
                if mode == "c18" and data and data[0] % 2 == 0:
                    why = malformed([VOCAB[b % len(VOCAB)] for b in data[1:4096]])
                    if why:
                        sig = "c18:accepted:" + why
                elif mode == "c07" and new:
                    sig = roundtrip(text, ast)
                    if sig is not None:
                        f = dict(text=text)
                        for name, pred in c07_predicates.items():
                            if pred(f):
                                st.excluded[name] = st.excluded.get(name, 0) + 1
                                sig = None
                                break
            elif mode == "c06":
                sig = "result:" + type(ast).__name__
        except c_parser.ParseError as e:
            if has_location(str(e), files_in_play(text)):
                st.rejected += 1
                if new and text.count(" ") >= 4:
                    st.nontrivial += 1
            elif mode == "c06":
                sig = "noloc"
        except RecursionError:
            if text.count(" ") > 100 or len(text) > 400:
                st.recursion += 1
            elif mode == "c06":
                sig = "exc:RecursionError"
        except Exception as e:  # the property: nothing else may escape
            if mode == "c06":
                sig = "exc:%s@%s" % (type(e).__name__, where(e))
        if sig is not None:
            st.bucket(sig, text, data)
        if st.execs % 500 == 0 or st.execs < 3:
            st.dump()  # the process ends through libFuzzer's exit(): at most 499 executions go uncounted

    atheris.Setup(argv, one)
    try:
        atheris.Fuzz()
    finally:
        st.dump()


if __name__ == "__main__":
    main()
