"""Shared outcome classification for CParser.parse (DESIGN.md 3, C06)."""
import re
import signal

from pycparser import c_ast, c_parser
from pycparser.c_lexer import CLexer


class HangDetected(BaseException):
    pass


def _on_alarm(signum, frame):
    raise HangDetected()


_installed = [None]


def arm_cpu_alarm(seconds):
    import os

    if _installed[0] != os.getpid():
        signal.signal(signal.SIGVTALRM, _on_alarm)
        _installed[0] = os.getpid()
    signal.setitimer(signal.ITIMER_VIRTUAL, seconds)


def disarm_cpu_alarm():
    signal.setitimer(signal.ITIMER_VIRTUAL, 0)


class CountingLexer(CLexer):
    """Counts token() requests (public lexer= injection point)."""

    ncalls = 0

    def token(self):
        CountingLexer.ncalls += 1
        return CLexer.token(self)


_LOC = re.compile(r":\d+(:\d+)?: ")


def has_location(msg, files):
    """Does a ParseError message start with 'file:line:col: ', 'file:line: '
    or 'file: ' for one of the file names in play?"""
    for f in files:
        if msg.startswith(f):
            rest = msg[len(f):]
            if rest.startswith(": ") or _LOC.match(rest):
                return True
    return False


_retrying = [False]
REFERENCE_LOOP_SECONDS = 0.025  # CPU time of _reference_loop() on the machine the budgets were chosen on


def _reference_loop():
    import time

    t = time.process_time()
    x = 0
    for i in range(300000):
        x += i * i
    return time.process_time() - t


def parse_outcome(src, filename="f.c", files=("f.c",), parser=None, cpu_seconds=None):
    """Returns ('ast', FileAST) | ('perr', message) | ('bad', sig, detail).

    'bad' covers everything C06 forbids: another exception type, a ParseError
    without location prefix, a non-FileAST result, a CPU-time alarm."""
    if parser is None:
        parser = c_parser.CParser()
    try:
        if cpu_seconds:
            arm_cpu_alarm(cpu_seconds)
        try:
            ast = parser.parse(src, filename)
        finally:
            if cpu_seconds:
                disarm_cpu_alarm()
    except c_parser.ParseError as e:
        m = str(e)
        if not has_location(m, files):
            return ("bad", "noloc", "ParseError without location prefix: %r" % m[:200])
        return ("perr", m)
    except RecursionError:
        return ("bad", "exc:RecursionError", "RecursionError")
    except HangDetected:
        # a CPU-time alarm is a hint: once, on an oversubscribed VM, a thread was
        # charged 300 times the time its work takes (DESIGN 11.13).  The verdict
        # needs a second attempt with three times the budget, scaled by how slow
        # a fixed reference loop runs right now.
        if not _retrying[0]:
            factor = max(1.0, _reference_loop() / REFERENCE_LOOP_SECONDS)
            _retrying[0] = True
            try:
                again = parse_outcome(src, filename, files, parser=parser, cpu_seconds=min(3 * cpu_seconds * factor, 1800))
            finally:
                _retrying[0] = False
            if not (again[0] == "bad" and again[1] == "hang"):
                return again
            return ("bad", "hang", "CPU-time alarm fired twice (%ss, then %.0fs): parse did not terminate" % (cpu_seconds, min(3 * cpu_seconds * factor, 1800)))
        return ("bad", "hang", "CPU-time alarm (%ss) fired: parse did not terminate" % cpu_seconds)
    except Exception as e:  # noqa: BLE001 - this is the oracle
        return ("bad", "exc:" + type(e).__name__, "%s: %s" % (type(e).__name__, str(e)[:200]))
    if not isinstance(ast, c_ast.FileAST):
        return ("bad", "notfileast", "parse returned %r" % type(ast).__name__)
    return ("ast", ast)
