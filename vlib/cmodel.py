"""An independent model of C programs: abstract syntax as nested tuples,
a renderer to token lists (with provenance) and the AST pycparser documents
for each construct.  Written from ISO C99 6.5-6.9, README and _c_ast.cfg
comments - this module does not import c_parser.  DESIGN.md 2.2.

Model grammar (all nodes are tuples, first element = kind)

 expressions
   ('id', name) ('const', spelling, ctype) ('str', [spellings])
   ('bin', op, l, r) ('asg', op, l, r) ('cond', c, t, f)
   ('pre', op, e)  op in - + ! ~ * & ++ -- sizeof      ('post', op, e)
   ('sizeoft', TN) ('alignof', TN) ('cast', TN, e)
   ('idx', a, i) ('call', f, [args]) ('mem', e, '.'|'->', name)
   ('comma', [e, e, ...]) ('cl', TN, INITLIST) ('offsetof', TN, [name, ('.', n)|('[', e) ...])
 type names     ('tn', SPEC, DERIV)
 specifiers     SPEC = [item...] in source order
   ('q', qual) ('s', storage) ('f', funcspec) ('a', ('e', E)|('t', TN))
   ('t', word) ('su', 'struct'|'union', tag|None, members|None)
   ('enum', tag|None, [(name, E|None)...]|None, trailing_comma) ('atomic', TN)
 derivations    DERIV = [d...] from the declared entity outward
   ('ptr', [quals]) ('arr', [quals], static: None|'first'|'last', dim: None|('star',)|E)
   ('fn', None | ('proto', [PARAM...], ellipsis) | ('knr', [names]))
   PARAM = ('param', SPEC, DECLARATOR)
 declarator     ('d', name|None, DERIV, init|None, bits|None, parens)
                parens: tuple of bool, len(DERIV)+1: redundant () after i derivations
 initializer    ('ie', E) | ('il', [(designators, INIT)...], trailing_comma)
                designator ('.', name) | ('[', E)
 declaration    ('decl', SPEC, [DECLARATOR...])      (DECLARATOR list may be empty: tag only)
 members        ('decl', ...) | ('pragma', text) | ('sassert', E, msg)
 statements
   ('expr', E) ('empty',) ('block', [items]) ('if', E, S, S|None) ('while', E, S)
   ('do', S, E) ('for', None|('e', E)|('d', DECL), E|None, E|None, S) ('switch', E, S)
   ('case', E, S) ('default', S) ('label', name, S) ('goto', name) ('break',)
   ('continue',) ('return', E|None) ('sassert', E, [msg spellings]|None)
   ('pragma', text)  block item only      ('prag', [PRAG...], S)  substatement only
   ('oppragma', [string spellings])  _Pragma operator (block item)
   PRAG = ('pragma', text) | ('oppragma', [spellings])
 external       ('decl', ...) ('fdef', SPEC, DECLARATOR, [DECL...]|None, BLOCK)
                ('pragma', text) ('sassert', ...) ('semi',) ('oppragma', ...)
 unit           ('tu', [external...])
"""

# ---------------------------------------------------------------------------
# grammar levels (higher binds tighter)
# ---------------------------------------------------------------------------
BIN = {
    "||": 1, "&&": 2, "|": 3, "^": 4, "&": 5, "==": 6, "!=": 6, "<": 7, ">": 7, "<=": 7, ">=": 7,
    "<<": 8, ">>": 8, "+": 9, "-": 9, "*": 10, "/": 10, "%": 10,
}  # fmt: skip
ASG = ["=", "+=", "-=", "*=", "/=", "%=", "<<=", ">>=", "&=", "|=", "^="]
PRE = ["-", "+", "!", "~", "*", "&", "++", "--", "sizeof"]
L_COMMA, L_ASG, L_COND, L_CAST, L_UNARY, L_POSTFIX, L_PRIMARY = -2, -1, 0, 11, 12, 13, 14
QUALS = ["const", "volatile", "restrict", "_Atomic"]


def level(e):
    k = e[0]
    if k == "bin":
        return BIN[e[1]]
    return _LEVEL[k]


_LEVEL = {
    "id": L_PRIMARY, "const": L_PRIMARY, "str": L_PRIMARY, "asg": L_ASG, "cond": L_COND, "pre": L_UNARY,
    "post": L_POSTFIX, "sizeoft": L_UNARY, "alignof": L_UNARY, "cast": L_CAST, "idx": L_POSTFIX,
    "call": L_POSTFIX, "mem": L_POSTFIX, "comma": L_COMMA, "cl": L_POSTFIX, "offsetof": L_PRIMARY,
}  # fmt: skip


def freshen(m):
    """Rebuild the model so that every node is a distinct tuple object (the
    renderer keys token ranges by id(node))."""
    if isinstance(m, tuple):
        return tuple(freshen(x) for x in m) if m else ()
    if isinstance(m, list):
        return [freshen(x) for x in m]
    return m


def count_nodes(m):
    if isinstance(m, tuple):
        return (1 if m and isinstance(m[0], str) else 0) + sum(count_nodes(x) for x in m)
    if isinstance(m, list):
        return sum(count_nodes(x) for x in m)
    return 0


# ---------------------------------------------------------------------------
# rendering
# ---------------------------------------------------------------------------
class Tok:
    __slots__ = ("s", "line")

    def __init__(self, s, line=False):
        self.s = s
        self.line = line  # True: a '#pragma ...' line that must stand on its own line

    def __repr__(self):
        return "Tok(%r)" % self.s


class Renderer:
    """mode: 'min' (only the parentheses the grammar requires), 'full' (every
    non-primary operand parenthesised) or 'red' (minimal plus redundant
    parentheses where paren(node) says so).  Never parenthesises the operands
    of a comma list redundantly when they are comma expressions themselves
    (that is the one place where parentheses show in the AST)."""

    def __init__(self, mode="min", paren=None):
        self.mode = mode
        self.paren = paren or (lambda node: False)
        self.toks = []
        self.ranges = {}  # id(node) -> (start, end)
        self.nametok = {}  # id(node) -> index of the token that spells it

    # -- helpers
    def t(self, s):
        self.toks.append(Tok(s))

    def begin(self):
        return len(self.toks)

    def end(self, node, start):
        self.ranges[id(node)] = (start, len(self.toks))

    # -- expressions
    def E(self, e, need):
        """render e where grammar level >= need is required"""
        lv = level(e)
        wrap = lv < need
        if not wrap:
            # identifiers, constants and string literals are operands too:
            # '(a)[0]', 'sizeof (a)[0]', 'f((1))' must change nothing
            if self.mode == "full":
                wrap = True
            elif self.mode == "red" and self.paren(e):
                wrap = True
        if wrap:
            s = self.begin()
            self.t("(")
            self.expr(e)
            self.t(")")
            # the parenthesised form still belongs to e
            self.ranges[id(e)] = (s, len(self.toks))
        else:
            self.expr(e)

    def expr(self, e):
        s = self.begin()
        k = e[0]
        if k == "id":
            self.nametok[id(e)] = len(self.toks)
            self.t(e[1])
        elif k == "const":
            self.nametok[id(e)] = len(self.toks)
            self.t(e[1])
        elif k == "str":
            self.nametok[id(e)] = len(self.toks)
            for p in e[1]:
                self.t(p)
        elif k == "bin":
            p = BIN[e[1]]
            self.E(e[2], p)
            self.t(e[1])
            self.E(e[3], p + 1)
        elif k == "asg":
            self.E(e[2], L_UNARY)
            self.t(e[1])
            self.E(e[3], L_ASG)
        elif k == "cond":
            self.E(e[1], 1)
            self.t("?")
            self.E(e[2], L_COMMA)
            self.t(":")
            self.E(e[3], L_COND)
        elif k == "pre":
            op = e[1]
            self.t(op)
            if op in ("++", "--", "sizeof"):
                self.E(e[2], L_UNARY)
            else:
                self.E(e[2], L_CAST)
        elif k == "post":
            self.E(e[2], L_POSTFIX)
            self.t(e[1])
        elif k == "sizeoft" or k == "alignof":
            self.t("sizeof" if k == "sizeoft" else "_Alignof")
            self.t("(")
            self.typename(e[1])
            self.t(")")
        elif k == "cast":
            self.t("(")
            self.typename(e[1])
            self.t(")")
            self.E(e[2], L_CAST)
        elif k == "idx":
            self.E(e[1], L_POSTFIX)
            self.t("[")
            self.E(e[2], L_COMMA)
            self.t("]")
        elif k == "call":
            self.E(e[1], L_POSTFIX)
            self.t("(")
            for i, a in enumerate(e[2]):
                if i:
                    self.t(",")
                self.E(a, L_ASG)
            self.t(")")
        elif k == "mem":
            self.E(e[1], L_POSTFIX)
            self.t(e[2])
            self.nametok[("field", id(e))] = len(self.toks)
            self.t(e[3])
        elif k == "comma":
            for i, a in enumerate(e[1]):
                if i:
                    self.t(",")
                self.E(a, L_ASG)
        elif k == "cl":
            self.t("(")
            self.typename(e[1])
            self.t(")")
            self.initializer(e[2])
        elif k == "offsetof":
            self.t("offsetof")
            self.t("(")
            self.typename(e[1])
            self.t(",")
            des = e[2]
            self.nametok[("od", id(e), 0)] = len(self.toks)
            self.t(des[0])
            for i, d in enumerate(des[1:], 1):
                if d[0] == ".":
                    self.t(".")
                    self.nametok[("od", id(e), i)] = len(self.toks)
                    self.t(d[1])
                else:
                    self.t("[")
                    self.E(d[1], L_COMMA)
                    self.t("]")
            self.t(")")
        else:
            raise ValueError("bad expression kind %r" % (k,))
        self.end(e, s)

    # -- types
    def typename(self, tn):
        s = self.begin()
        self.spec(tn[1])
        self.declarator(("d", None, tn[2], None, None, None), abstract=True)
        self.end(tn, s)

    def spec(self, spec):
        for it in spec:
            s = self.begin()
            k = it[0]
            if k in ("q", "s", "f", "t"):
                self.t(it[1])
            elif k == "a":
                self.t("_Alignas")
                self.t("(")
                if it[1][0] == "e":
                    self.E(it[1][1], L_COND)
                else:
                    self.typename(it[1][1])
                self.t(")")
            elif k == "su":
                self.t(it[1])
                if it[2] is not None:
                    self.nametok[("tag", id(it))] = len(self.toks)
                    self.t(it[2])
                if it[3] is not None:
                    self.t("{")
                    for m in it[3]:
                        self.member(m)
                    self.t("}")
            elif k == "enum":
                self.t("enum")
                if it[1] is not None:
                    self.t(it[1])
                if it[2] is not None:
                    self.t("{")
                    for i, en in enumerate(it[2]):
                        if i:
                            self.t(",")
                        es = self.begin()
                        self.nametok[id(en)] = len(self.toks)
                        self.t(en[0])
                        if en[1] is not None:
                            self.t("=")
                            self.E(en[1], L_COND)
                        self.end(en, es)
                    if it[3]:
                        self.t(",")
                    self.t("}")
            elif k == "atomic":
                self.t("_Atomic")
                self.t("(")
                self.typename(it[1])
                self.t(")")
            else:
                raise ValueError("bad specifier %r" % (k,))
            self.end(it, s)

    def member(self, m):
        k = m[0]
        if k == "decl":
            self.declaration(m)
        elif k == "pragma":
            s = self.begin()
            self.pragma_line(m)
            self.end(m, s)
        elif k == "sassert":
            self.sassert(m)
        elif k == "oppragma":
            self.oppragma(m)
        else:
            raise ValueError(k)

    def declarator(self, d, abstract=False):
        """inside-out rule (C99 6.7.5)"""
        s = self.begin()
        _, name, deriv, init, bits, parens = d
        # Build as nested token lists: start from the name and wrap outward.
        cur = []
        if name is not None:
            cur = [("name", name)]
        n = len(deriv)
        for i, dv in enumerate(deriv):
            if parens and i < len(parens) and parens[i] and cur:
                cur = [("t", "(")] + cur + [("t", ")")]
            k = dv[0]
            if k == "ptr":
                cur = [("t", "*")] + [("t", q) for q in dv[1]] + cur
                nxt = deriv[i + 1][0] if i + 1 < n else None
                if nxt in ("arr", "fn"):
                    cur = [("t", "(")] + cur + [("t", ")")]
            elif k == "arr":
                cur = cur + [("arr", dv)]
            elif k == "fn":
                cur = cur + [("fn", dv)]
            else:
                raise ValueError(k)
        if parens and len(parens) > n and parens[n] and cur:
            cur = [("t", "(")] + cur + [("t", ")")]
        for kind, v in cur:
            if kind == "t":
                self.t(v)
            elif kind == "name":
                self.nametok[id(d)] = len(self.toks)
                self.t(v)
            elif kind == "arr":
                a0 = self.begin()
                self.t("[")
                _, quals, static, dim = v
                if static == "first":
                    self.t("static")
                for q in quals:
                    self.t(q)
                if static == "last":
                    self.t("static")
                if dim is not None:
                    if dim == ("star",):
                        self.nametok[id(dim)] = len(self.toks)
                        self.t("*")
                    else:
                        self.E(dim, L_ASG)
                self.t("]")
                self.end(v, a0)
            elif kind == "fn":
                f0 = self.begin()
                self.t("(")
                ps = v[1]
                if ps is not None:
                    if ps[0] == "proto":
                        for i, p in enumerate(ps[1]):
                            if i:
                                self.t(",")
                            p0 = self.begin()
                            self.spec(p[1])
                            self.declarator(p[2], abstract=p[2][1] is None)
                            self.end(p, p0)
                        if ps[2]:
                            self.t(",")
                            self.nametok[("ellipsis", id(ps))] = len(self.toks)
                            self.t("...")
                    else:
                        for i, nm in enumerate(ps[1]):
                            if i:
                                self.t(",")
                            self.nametok[("knr", id(ps), i)] = len(self.toks)
                            self.t(nm)
                self.t(")")
                self.end(v, f0)
        if bits is not None:
            self.t(":")
            self.E(bits, L_COND)
        if init is not None:
            self.t("=")
            self.initializer(init)
        self.end(d, s)

    def initializer(self, init):
        s = self.begin()
        if init[0] == "ie":
            self.E(init[1], L_ASG)
        else:
            self.t("{")
            for i, (des, sub) in enumerate(init[1]):
                if i:
                    self.t(",")
                if des:
                    for d in des:
                        if d[0] == ".":
                            self.t(".")
                            self.nametok[id(d)] = len(self.toks)
                            self.t(d[1])
                        else:
                            self.t("[")
                            self.E(d[1], L_COND)
                            self.t("]")
                    self.t("=")
                self.initializer(sub)
            if init[2]:
                self.t(",")
            self.t("}")
        self.end(init, s)

    def declaration(self, d, semi=True):
        s = self.begin()
        self.spec(d[1])
        for i, dc in enumerate(d[2]):
            if i:
                self.t(",")
            self.declarator(dc)
        if semi:
            self.t(";")
        self.end(d, s)

    # -- statements
    def pragma_line(self, p):
        self.toks.append(Tok("#pragma" + p[1] if p[1] == "" else "#pragma " + p[1], line=True))

    def oppragma(self, p):
        s = self.begin()
        self.t("_Pragma")
        self.t("(")
        for x in p[1]:
            self.t(x)
        self.t(")")
        self.end(p, s)

    def sassert(self, st):
        s = self.begin()
        self.t("_Static_assert")
        self.t("(")
        self.E(st[1], L_COND)
        if st[2] is not None:
            self.t(",")
            for x in st[2]:
                self.t(x)
        self.t(")")
        self.t(";")
        self.end(st, s)

    def stmt(self, st):
        s = self.begin()
        k = st[0]
        if k == "expr":
            self.E(st[1], L_COMMA)
            self.t(";")
        elif k == "empty":
            self.t(";")
        elif k == "block":
            self.t("{")
            for it in st[1]:
                self.stmt(it)
            self.t("}")
        elif k == "if":
            self.t("if")
            self.t("(")
            self.E(st[1], L_COMMA)
            self.t(")")
            self.stmt(st[2])
            if st[3] is not None:
                self.t("else")
                self.stmt(st[3])
        elif k == "while":
            self.t("while")
            self.t("(")
            self.E(st[1], L_COMMA)
            self.t(")")
            self.stmt(st[2])
        elif k == "do":
            self.t("do")
            self.stmt(st[1])
            self.t("while")
            self.t("(")
            self.E(st[2], L_COMMA)
            self.t(")")
            self.t(";")
        elif k == "for":
            self.t("for")
            self.t("(")
            init = st[1]
            if init is None:
                self.t(";")
            elif init[0] == "e":
                self.E(init[1], L_COMMA)
                self.t(";")
            else:
                self.declaration(init[1])
            if st[2] is not None:
                self.E(st[2], L_COMMA)
            self.t(";")
            if st[3] is not None:
                self.E(st[3], L_COMMA)
            self.t(")")
            self.stmt(st[4])
        elif k == "switch":
            self.t("switch")
            self.t("(")
            self.E(st[1], L_COMMA)
            self.t(")")
            self.stmt(st[2])
        elif k == "case":
            self.t("case")
            self.E(st[1], L_COND)
            self.t(":")
            self.stmt(st[2])
        elif k == "default":
            self.t("default")
            self.t(":")
            self.stmt(st[1])
        elif k == "label":
            self.nametok[id(st)] = len(self.toks)
            self.t(st[1])
            self.t(":")
            self.stmt(st[2])
        elif k == "goto":
            self.t("goto")
            self.t(st[1])
            self.t(";")
        elif k == "break":
            self.t("break")
            self.t(";")
        elif k == "continue":
            self.t("continue")
            self.t(";")
        elif k == "return":
            self.t("return")
            if st[1] is not None:
                self.E(st[1], L_COMMA)
            self.t(";")
        elif k == "decl":
            self.declaration(st)
            return
        elif k == "sassert":
            self.sassert(st)
            return
        elif k == "pragma":
            self.pragma_line(st)
        elif k == "oppragma":
            self.oppragma(st)
            return
        elif k == "prag":
            for p in st[1]:
                if p[0] == "pragma":
                    p0 = self.begin()
                    self.pragma_line(p)
                    self.end(p, p0)
                else:
                    self.oppragma(p)
            self.stmt(st[2])
        else:
            raise ValueError("bad statement kind %r" % (k,))
        self.end(st, s)

    def external(self, x):
        k = x[0]
        if k == "decl":
            self.declaration(x)
        elif k == "fdef":
            s = self.begin()
            self.spec(x[1])
            self.declarator(x[2])
            if x[3] is not None:
                for d in x[3]:
                    self.declaration(d)
            self.stmt(x[4])
            self.end(x, s)
        elif k == "pragma":
            s = self.begin()
            self.pragma_line(x)
            self.end(x, s)
        elif k == "sassert":
            self.sassert(x)
        elif k == "oppragma":
            self.oppragma(x)
        elif k == "semi":
            self.t(";")
        else:
            raise ValueError(k)

    def unit(self, tu):
        for x in tu[1]:
            self.external(x)


def paren_from_mask(pm):
    """redundant-parenthesis decisions as a replayable 16-bit mask"""
    i = [0]

    def paren(node):
        b = (pm >> (i[0] % 16)) & 1
        i[0] += 1
        return bool(b)

    return paren


def text_of(toks):
    """Plain layout: one blank between tokens, pragma lines on their own."""
    out = []
    bol = True
    for t in toks:
        if t.line:
            if not bol:
                out.append("\n")
            out.append(t.s + "\n")
            bol = True
        else:
            if not bol:
                out.append(" ")
            out.append(t.s)
            bol = False
    return "".join(out)


def render_text(kind, m, mode="min", paren=None):
    r = Renderer(mode, paren)
    getattr(r, kind)(m)
    return text_of(r.toks)


# ---------------------------------------------------------------------------
# expected AST (dump format of astdump.dump, coords excluded)
# ---------------------------------------------------------------------------
class Expect:
    """ann=True inserts ('@', id(model node), exact) as first slot of the node
    tuples whose token range the renderer knows; C11 uses it."""

    def __init__(self, ann=False):
        self.ann = ann

    def N(self, cls, model, *slots, exact=None):
        if self.ann and model is not None:
            return (cls, ("@", id(model) if not isinstance(model, tuple) or not model or model[0] != "@key" else model[1], exact)) + slots
        return (cls,) + slots

    # -- expressions
    def expr(self, e):
        k = e[0]
        N = self.N
        if k == "id":
            return N("ID", e, ("name", e[1]), exact=id(e))
        if k == "const":
            return N("Constant", e, ("type", e[2]), ("value", e[1]), exact=id(e))
        if k == "str":
            return N("Constant", e, ("type", "string"), ("value", concat_strings(e[1])), exact=id(e))
        if k == "bin":
            return N("BinaryOp", e, ("op", e[1]), ("left", self.expr(e[2])), ("right", self.expr(e[3])))
        if k == "asg":
            return N("Assignment", e, ("op", e[1]), ("lvalue", self.expr(e[2])), ("rvalue", self.expr(e[3])))
        if k == "cond":
            return N("TernaryOp", e, ("cond", self.expr(e[1])), ("iftrue", self.expr(e[2])), ("iffalse", self.expr(e[3])))
        if k == "pre":
            return N("UnaryOp", e, ("op", e[1]), ("expr", self.expr(e[2])))
        if k == "post":
            return N("UnaryOp", e, ("op", "p" + e[1]), ("expr", self.expr(e[2])))
        if k == "sizeoft":
            return N("UnaryOp", e, ("op", "sizeof"), ("expr", self.typename(e[1])))
        if k == "alignof":
            return N("UnaryOp", e, ("op", "_Alignof"), ("expr", self.typename(e[1])))
        if k == "cast":
            return N("Cast", e, ("to_type", self.typename(e[1])), ("expr", self.expr(e[2])))
        if k == "idx":
            return N("ArrayRef", e, ("name", self.expr(e[1])), ("subscript", self.expr(e[2])))
        if k == "call":
            args = None
            if e[2]:
                args = N("ExprList", ("@key", ("args", id(e))), ("exprs", [self.expr(a) for a in e[2]]))
            return N("FuncCall", e, ("name", self.expr(e[1])), ("args", args))
        if k == "mem":
            fld = N("ID", ("@key", ("field", id(e))), ("name", e[3]), exact=("field", id(e)))
            return N("StructRef", e, ("name", self.expr(e[1])), ("type", e[2]), ("field", fld))
        if k == "comma":
            return N("ExprList", e, ("exprs", [self.expr(a) for a in e[1]]))
        if k == "cl":
            return N("CompoundLiteral", e, ("type", self.typename(e[1])), ("init", self.init(e[2])))
        if k == "offsetof":
            des = e[2]
            node = N("ID", ("@key", ("od", id(e), 0)), ("name", des[0]), exact=("od", id(e), 0))
            for i, d in enumerate(des[1:], 1):
                if d[0] == ".":
                    f = N("ID", ("@key", ("od", id(e), i)), ("name", d[1]), exact=("od", id(e), i))
                    node = N("StructRef", e, ("name", node), ("type", "."), ("field", f))
                else:
                    node = N("ArrayRef", e, ("name", node), ("subscript", self.expr(d[1])))
            args = N("ExprList", e, ("exprs", [self.typename(e[1]), node]))
            return N("FuncCall", e, ("name", N("ID", e, ("name", "offsetof"))), ("args", args))
        raise ValueError(k)

    # -- specifiers
    def split_spec(self, spec, owner):
        """-> (quals, storage, funcspec, align nodes, base type node)"""
        quals = [it[1] for it in spec if it[0] == "q"]
        storage = [it[1] for it in spec if it[0] == "s"]
        funcspec = [it[1] for it in spec if it[0] == "f"]
        align = []
        for it in spec:
            if it[0] == "a":
                inner = self.expr(it[1][1]) if it[1][0] == "e" else self.typename(it[1][1])
                align.append(self.N("Alignas", it, ("alignment", inner)))
        words = [it for it in spec if it[0] == "t"]
        others = [it for it in spec if it[0] in ("su", "enum", "atomic")]
        if others:
            assert len(others) == 1 and not words, "model: one tag/atomic specifier and no other type words"
            it = others[0]
            if it[0] == "su":
                base = self.N(
                    "Struct" if it[1] == "struct" else "Union",
                    it,
                    ("name", it[2]),
                    ("decls", None if it[3] is None else [x for m in it[3] for x in self.member(m)]),
                )
            elif it[0] == "enum":
                vals = None
                if it[2] is not None:
                    ens = [self.N("Enumerator", en, ("name", en[0]), ("value", None if en[1] is None else self.expr(en[1])), exact=id(en)) for en in it[2]]
                    vals = self.N("EnumeratorList", it, ("enumerators", ens))
                base = self.N("Enum", it, ("name", it[1]), ("values", vals))
            else:
                base = ("atomic", it)
        elif words:
            base = self.N("IdentifierType", ("@key", ("spec", id(owner))), ("names", [w[1] for w in words]))
        else:
            base = None  # implicit int handled by callers
        return quals, storage, funcspec, align, base

    def atomic(self, quals, base, deriv):
        """_Atomic(T) D  ==  D applied to the _Atomic-qualified T (C11 6.7.2.4):
        resolves the ('atomic', item) placeholder of split_spec."""
        while isinstance(base, tuple) and base and base[0] == "atomic":
            tn = base[1][1]
            iq, _s, _f, _a, ib = self.split_spec(tn[1], tn)
            ideriv = list(tn[2])
            if ideriv:
                assert ideriv[0][0] == "ptr", "model: _Atomic(T) with array/function T is not valid C"
                ideriv[0] = ("ptr", list(ideriv[0][1]) + ["_Atomic"])
                quals = list(quals) + list(iq)
            else:
                quals = list(quals) + list(iq) + ["_Atomic"]
            deriv = list(deriv) + ideriv
            base = ib
        return list(quals), base, list(deriv)

    def member(self, m):
        if m[0] == "decl":
            return self.declaration(m, member=True)
        if m[0] == "pragma":
            return [self.pragma(m)]
        if m[0] == "oppragma":
            return [self.oppragma(m)]
        if m[0] == "sassert":
            return [self.sassert(m)]
        raise ValueError(m[0])

    def chain(self, deriv, name, quals, base, owner, dmodel):
        """type chain for a declarator: derivations in order, ending in TypeDecl"""
        td = self.N("TypeDecl", ("@key", ("decl", id(owner))), ("declname", name), ("quals", list(quals)), ("align", None), ("type", base), exact=(id(dmodel) if name is not None and dmodel is not None else None))
        return self.wrap(deriv, 0, td, owner)

    def wrap(self, deriv, i, td, owner):
        if i >= len(deriv):
            return td
        dv = deriv[i]
        inner = self.wrap(deriv, i + 1, td, owner)
        key = ("@key", ("decl", id(owner)))
        if dv[0] == "ptr":
            return self.N("PtrDecl", key, ("quals", list(dv[1])), ("type", inner))
        if dv[0] == "arr":
            _, quals, static, dim = dv
            dq = list(quals)
            if static == "first":
                dq = ["static"] + dq
            elif static == "last":
                dq = dq + ["static"]
            if dim is None:
                d = None
            elif dim == ("star",):
                # the ID('*') of an unspecified-size VLA is spelled by the '*' token
                d = self.N("ID", ("@key", ("arr", id(dv))), ("name", "*"), exact=id(dim))
            else:
                d = self.expr(dim)
            return self.N("ArrayDecl", key, ("type", inner), ("dim", d), ("dim_quals", dq))
        if dv[0] == "fn":
            return self.N("FuncDecl", key, ("args", self.params(dv[1], dv)), ("type", inner))
        raise ValueError(dv[0])

    def params(self, ps, dv):
        if ps is None:
            return None
        if ps[0] == "knr":
            return self.N("ParamList", dv, ("params", [self.N("ID", ("@key", ("knr", id(ps), i)), ("name", nm), exact=("knr", id(ps), i)) for i, nm in enumerate(ps[1])]))
        out = []
        for p in ps[1]:
            out.append(self.param(p))
        if ps[2]:
            out.append(self.N("EllipsisParam", ("@key", ("ellipsis", id(ps))), exact=("ellipsis", id(ps))))
        return self.N("ParamList", dv, ("params", out))

    def param(self, p):
        _, spec, d = p
        quals, storage, funcspec, align, base = self.split_spec(spec, p)
        if base is None:
            base = self.N("IdentifierType", p, ("names", ["int"]))
        name = d[1]
        quals, base, deriv = self.atomic(quals, base, d[2])
        if name is None:
            ty = self.chain(deriv, None, quals, base, p, None)
            return self.N("Typename", p, ("name", None), ("quals", list(quals)), ("align", None), ("type", ty))
        ty = self.chain(deriv, name, quals, base, p, d)
        return self.N("Decl", p, ("name", name), ("quals", list(quals)), ("align", align), ("storage", storage), ("funcspec", funcspec), ("type", ty), ("init", None), ("bitsize", None))

    def typename(self, tn):
        quals, storage, funcspec, align, base = self.split_spec(tn[1], tn)
        quals, base, deriv = self.atomic(quals, base, tn[2])
        ty = self.chain(deriv, None, quals, base, tn, None)
        return self.N("Typename", tn, ("name", None), ("quals", list(quals)), ("align", None), ("type", ty))

    def init(self, init):
        if init[0] == "ie":
            return self.expr(init[1])
        items = []
        for des, sub in init[1]:
            v = self.init(sub)
            if des:
                names = [self.N("ID", d, ("name", d[1]), exact=id(d)) if d[0] == "." else self.expr(d[1]) for d in des]
                v = self.N("NamedInitializer", None, ("name", names), ("expr", v))
            items.append(v)
        return self.N("InitList", init, ("exprs", items))

    def declaration(self, d, member=False):
        _, spec, dcls = d
        quals, storage, funcspec, align, base = self.split_spec(spec, d)
        out = []
        if not dcls:
            # tag-only declaration: struct S {...}; / enum E {...};
            out.append(self.N("Decl", d, ("name", None), ("quals", list(quals)), ("align", align), ("storage", storage), ("funcspec", funcspec), ("type", base), ("init", None), ("bitsize", None)))
            return out
        for dc in dcls:
            _, name, deriv, init, bits, _p = dc
            b = base
            if b is None:
                b = self.N("IdentifierType", d, ("names", ["int"]))
            quals_here, b, deriv = self.atomic(quals, b, deriv)
            ty = self.chain(deriv, name, quals_here, b, d, dc)
            if "typedef" in storage:
                out.append(self.N("Typedef", d, ("name", name), ("quals", list(quals_here)), ("storage", storage), ("type", ty)))
            else:
                out.append(
                    self.N(
                        "Decl", d, ("name", name), ("quals", list(quals_here)), ("align", align), ("storage", storage), ("funcspec", funcspec),
                        ("type", ty), ("init", None if init is None else self.init(init)), ("bitsize", None if bits is None else self.expr(bits)),
                    )
                )  # fmt: skip
        return out

    # -- statements
    def pragma(self, p):
        return self.N("Pragma", p, ("string", p[1].lstrip(" \t")))

    def oppragma(self, p):
        return self.N("Pragma", p, ("string", self.N("Constant", p, ("type", "string"), ("value", concat_strings(p[1])))))

    def sassert(self, st):
        msg = None
        if st[2] is not None:
            msg = self.N("Constant", st, ("type", "string"), ("value", concat_strings(st[2])))
        return self.N("StaticAssert", st, ("cond", self.expr(st[1])), ("message", msg))

    def stmt(self, st):
        """-> list of AST nodes (a declaration yields one node per declarator)"""
        k = st[0]
        N = self.N
        E = self.expr
        S = self.stmt1
        if k == "expr":
            return [E(st[1])]
        if k == "empty":
            return [N("EmptyStatement", st)]
        if k == "block":
            items = [x for it in st[1] for x in self.stmt(it)]
            return [N("Compound", st, ("block_items", items if items else None))]
        if k == "if":
            return [N("If", st, ("cond", E(st[1])), ("iftrue", S(st[2])), ("iffalse", None if st[3] is None else S(st[3])))]
        if k == "while":
            return [N("While", st, ("cond", E(st[1])), ("stmt", S(st[2])))]
        if k == "do":
            return [N("DoWhile", st, ("cond", E(st[2])), ("stmt", S(st[1])))]
        if k == "for":
            init = st[1]
            if init is None:
                i = None
            elif init[0] == "e":
                i = E(init[1])
            else:
                i = N("DeclList", st, ("decls", self.declaration(init[1])))
            return [N("For", st, ("init", i), ("cond", None if st[2] is None else E(st[2])), ("next", None if st[3] is None else E(st[3])), ("stmt", S(st[4])))]
        if k == "switch":
            body = S(st[2])
            return [N("Switch", st, ("cond", E(st[1])), ("stmt", regroup_switch(body)))]
        if k == "case":
            return [N("Case", st, ("expr", E(st[1])), ("stmts", [S(st[2])]))]
        if k == "default":
            return [N("Default", st, ("stmts", [S(st[1])]))]
        if k == "label":
            return [N("Label", st, ("name", st[1]), ("stmt", S(st[2])), exact=id(st))]
        if k == "goto":
            return [N("Goto", st, ("name", st[1]))]
        if k == "break":
            return [N("Break", st)]
        if k == "continue":
            return [N("Continue", st)]
        if k == "return":
            return [N("Return", st, ("expr", None if st[1] is None else E(st[1])))]
        if k == "decl":
            return self.declaration(st)
        if k == "sassert":
            return [self.sassert(st)]
        if k == "pragma":
            return [self.pragma(st)]
        if k == "oppragma":
            return [self.oppragma(st)]
        if k == "prag":
            items = [self.pragma(p) if p[0] == "pragma" else self.oppragma(p) for p in st[1]] + [S(st[2])]
            return [N("Compound", st, ("block_items", items))]
        raise ValueError(k)

    def stmt1(self, st):
        r = self.stmt(st)
        assert len(r) == 1, "model: substatement must be a single statement"
        return r[0]

    def external(self, x):
        k = x[0]
        if k == "decl":
            return self.declaration(x)
        if k == "fdef":
            _, spec, d, knr, body = x
            quals, storage, funcspec, align, base = self.split_spec(spec, x)
            if base is None:
                base = self.N("IdentifierType", x, ("names", ["int"]))
            quals, base, fderiv = self.atomic(quals, base, d[2])
            ty = self.chain(fderiv, d[1], quals, base, x, d)
            decl = self.N("Decl", x, ("name", d[1]), ("quals", list(quals)), ("align", align), ("storage", storage), ("funcspec", funcspec), ("type", ty), ("init", None), ("bitsize", None))
            pd = None
            if knr is not None:
                pd = [n for kd in knr for n in self.declaration(kd)]
            return [self.N("FuncDef", x, ("decl", decl), ("param_decls", pd), ("body", self.stmt1(body)))]
        if k == "pragma":
            return [self.pragma(x)]
        if k == "oppragma":
            return [self.oppragma(x)]
        if k == "sassert":
            return [self.sassert(x)]
        if k == "semi":
            return []
        raise ValueError(k)

    def unit(self, tu):
        return ("FileAST", ("ext", [n for x in tu[1] for n in self.external(x)]))


def concat_strings(parts):
    """Adjacent string literals concatenated inside one pair of quotes,
    keeping the encoding prefix of the first."""
    first = parts[0]
    q = first.index('"')
    pre = first[:q]
    body = "".join(p[p.index('"') + 1 : -1] for p in parts)
    return pre + '"' + body + '"'


def _slots(node):
    return dict(x for x in node[1:] if x[0] != "@")


def _is(node, *classes):
    return isinstance(node, tuple) and node and node[0] in classes


def regroup_switch(body):
    """The documented switch transform (docstring of fix_switch_cases),
    re-implemented from that description: only when the switch body is a
    Compound, over its direct items; a non-label item is appended to the last
    preceding Case/Default; a case nested directly as the first statement of
    a case is promoted to a sibling."""
    if not _is(body, "Compound"):
        return body
    items = _slots(body)["block_items"] or []
    out = []
    last = None
    for it in items:
        if _is(it, "Case", "Default"):
            out.append(it)
            cur = it
            while True:
                st = _slots(cur)["stmts"]
                if st and _is(st[0], "Case", "Default"):
                    nested = st.pop()
                    out.append(nested)
                    cur = nested
                else:
                    break
            last = out[-1]
        elif last is None:
            out.append(it)
        else:
            _slots(last)["stmts"].append(it)
    head = tuple(x for x in body if not (isinstance(x, tuple) and x and x[0] == "block_items"))
    return head + (("block_items", out),)


def strip_ann(d):
    """remove ('@', ...) annotations from an expected dump"""
    if isinstance(d, tuple):
        if d and isinstance(d[0], str) and d[0][:1].isupper():
            return tuple(strip_ann(x) for x in d if not (isinstance(x, tuple) and x and x[0] == "@"))
        return tuple(strip_ann(x) for x in d)
    if isinstance(d, list):
        return [strip_ann(x) for x in d]
    return d


def normalize(d):
    """Representation choices the documentation does not fix and that do not
    concern any listed property are normalised on both sides:
      * TypeDecl.align: None or [] (the list of _Alignas lives on the Decl)
      * Typename.name: None or ''
    """
    if isinstance(d, tuple):
        if d and d[0] == "TypeDecl":
            return tuple((("align", None) if (isinstance(x, tuple) and x and x[0] == "align") else normalize(x)) for x in d)
        if d and d[0] == "Typename":
            return tuple((("name", None) if (isinstance(x, tuple) and x and x[0] == "name" and x[1] in (None, "")) else normalize(x)) for x in d)
        return tuple(normalize(x) for x in d)
    if isinstance(d, list):
        return [normalize(x) for x in d]
    return d
