"""References computed by code that has never parsed anything.

"The same call run alone" (C13) and "a fresh parser on the same (text,
filename)" (C12) are statements about a process without history.  A reference
computed inside the checking process is only as clean as that process: state
kept at module or class level (a memo, a shared queue) pollutes the reference
in exactly the same way as the call under test, and the comparison stays green.

Two mechanisms, from cheap to strict:

* `fresh_package()` executes the package's source files again into brand-new
  module objects under a private name (pycparser_ref<N>): classes, module
  globals, class attributes and function-level caches of that copy have seen
  nothing.  `private_call(name, *args)` computes one answer with a copy made
  for that answer alone.  About 10 ms.  What it cannot isolate is state parked
  outside the package (in another module's globals) - no realistic change
  does that.
* `Pristine` (below) answers from a process without history.  A fork costs
  0.3-0.8 s under load in this VM, so it is used for pool programs only.

`Pristine` starts one helper interpreter (python -m vlib.pristine) that imports
pycparser and then never parses itself: for every request it forks a child,
the child computes the answer and exits.  Every answer therefore comes from a
process whose pycparser state is that of a fresh import.  Answers are cached by
request, so a pool program costs one fork per check run.
"""
import os
import pickle
import struct
import subprocess
import sys


def _parse_dump(src, fname):
    from pycparser import c_parser

    from .astdump import dump

    try:
        return ("ok", dump(c_parser.CParser().parse(src, fname), True))
    except RecursionError:
        return ("recursion",)
    except Exception as e:  # noqa: BLE001
        return ("err", type(e).__name__, str(e))


def _parse_gen(src, fname, reduce_parens):
    from pycparser import c_generator, c_parser

    try:
        ast = c_parser.CParser().parse(src, fname)
        return ("ok", c_generator.CGenerator(reduce_parentheses=reduce_parens).visit(ast))
    except RecursionError:
        return ("recursion",)
    except Exception as e:  # noqa: BLE001
        return ("err", type(e).__name__, str(e))


def _lex(src, fname):
    """token list (type, value, lineno, column) + error reports of a fresh CLexer"""
    from pycparser.c_lexer import CLexer

    errs = []
    lx = CLexer(error_func=lambda m, l, c: errs.append((m, l, c)), on_lbrace_func=lambda: None, on_rbrace_func=lambda: None, type_lookup_func=lambda n: False)
    lx.input(src, fname) if _takes_filename(lx) else lx.input(src)
    out = []
    for _ in range(100000):
        t = lx.token()
        if t is None:
            break
        out.append((t.type, t.value, t.lineno, getattr(t, "column", None)))
    return (out, errs, getattr(lx, "filename", None))


def _takes_filename(lx):
    import inspect

    try:
        return len(inspect.signature(lx.input).parameters) >= 2
    except (TypeError, ValueError):
        return False


FUNCS = {"parse_dump": _parse_dump, "parse_gen": _parse_gen, "lex": _lex}

# ---------------------------------------------------------------------------
# private copies of the package
# ---------------------------------------------------------------------------
import importlib.abc  # noqa: E402
import importlib.machinery  # noqa: E402
import importlib.util  # noqa: E402

_code = {}
_counter = [0]
PREFIX = "pycparser_ref"


class _Loader(importlib.machinery.SourceFileLoader):
    def get_code(self, fullname):
        path = self.get_filename(fullname)
        c = _code.get(path)
        if c is None:
            with open(path, "rb") as f:
                c = _code[path] = compile(f.read(), path, "exec", dont_inherit=True)
        return c


class _Finder(importlib.abc.MetaPathFinder):
    def __init__(self):
        self.roots = {}

    def find_spec(self, fullname, path=None, target=None):
        top = fullname.split(".", 1)[0]
        root = self.roots.get(top)
        if root is None:
            return None
        rel = fullname.split(".")[1:]
        base = os.path.join(root, *rel)
        if os.path.isdir(base):
            f = os.path.join(base, "__init__.py")
            return importlib.util.spec_from_file_location(fullname, f, loader=_Loader(fullname, f), submodule_search_locations=[base])
        f = base + ".py"
        if os.path.exists(f):
            return importlib.util.spec_from_file_location(fullname, f, loader=_Loader(fullname, f))
        return None


_finder = _Finder()


def fresh_package(repo=None):
    """-> (name, c_parser module, c_generator module, c_lexer module, c_ast module) of a
    brand-new private copy of <repo>/pycparser; call drop_package(name) when done"""
    repo = repo or os.environ.get("PYCPARSER_REPO", "/repo")
    if _finder not in sys.meta_path:
        sys.meta_path.insert(0, _finder)
    _counter[0] += 1
    name = "%s%d_%d" % (PREFIX, os.getpid(), _counter[0])
    _finder.roots[name] = os.path.join(repo, "pycparser")
    mods = [importlib.import_module(name + "." + m) for m in ("c_parser", "c_generator", "c_lexer", "c_ast")]
    return (name,) + tuple(mods)


def drop_package(name):
    _finder.roots.pop(name, None)
    for k in [k for k in sys.modules if k == name or k.startswith(name + ".")]:
        del sys.modules[k]


def _dump_any(n, coords, node_base):
    if isinstance(n, node_base):
        out = [type(n).__name__]
        for s in n.__slots__:
            if s == "__weakref__":
                continue
            if s == "coord":
                if coords:
                    c = n.coord
                    out.append(("coord", None if c is None else (getattr(c, "file", None), getattr(c, "line", None), getattr(c, "column", None))))
                continue
            out.append((s, _dump_any(getattr(n, s), coords, node_base)))
        return tuple(out)
    if isinstance(n, (list, tuple)):
        return [_dump_any(x, coords, node_base) for x in n]
    return n


_private_cache = {}


def private_call(kind, *args):
    """'parse_dump' (src, fname) / 'parse_gen' (src, fname, reduce_parens), same
    result shapes as the FUNCS above, computed by a copy of the package made
    for this one answer.  Cached per request."""
    key = (kind, args)
    if key in _private_cache:
        return _private_cache[key]
    name, cp, cg, cl, ca = fresh_package()
    try:
        try:
            ast = cp.CParser().parse(args[0], args[1])
            if kind == "parse_dump":
                res = ("ok", _dump_any(ast, True, ca.Node))
            else:
                res = ("ok", cg.CGenerator(reduce_parentheses=args[2]).visit(ast))
        except RecursionError:
            res = ("recursion",)
        except Exception as e:  # noqa: BLE001
            res = ("err", type(e).__name__, str(e))
    finally:
        drop_package(name)
    if len(_private_cache) < 50000:
        _private_cache[key] = res
    return res


def _write(f, obj):
    b = pickle.dumps(obj, 4)
    f.write(struct.pack("<I", len(b)))
    f.write(b)
    f.flush()


def _read(f):
    h = f.read(4)
    if len(h) < 4:
        raise EOFError
    (n,) = struct.unpack("<I", h)
    b = f.read(n)
    if len(b) < n:
        raise EOFError
    return pickle.loads(b)


def serve():
    """helper side: never parses; forks a child per request"""
    import pycparser.c_generator  # noqa: F401 - import everything once, use nothing
    import pycparser.c_parser  # noqa: F401

    fin = sys.stdin.buffer
    fout = sys.stdout.buffer
    while True:
        try:
            name, args = _read(fin)
        except EOFError:
            return
        r, w = os.pipe()
        pid = os.fork()
        if pid == 0:
            os.close(r)
            try:
                res = ("res", FUNCS[name](*args))
            except BaseException as e:  # noqa: BLE001
                res = ("crash", repr(e))
            with os.fdopen(w, "wb") as wf:
                wf.write(pickle.dumps(res, 4))
            os._exit(0)
        os.close(w)
        with os.fdopen(r, "rb") as rf:
            data = rf.read()
        os.waitpid(pid, 0)
        try:
            res = pickle.loads(data)
        except Exception:  # noqa: BLE001
            res = ("crash", "child died without an answer")
        _write(fout, res)


class PristineUnavailable(Exception):
    pass


class Pristine:
    def __init__(self, here=None, repo=None):
        self.here = here or os.path.dirname(os.path.dirname(os.path.abspath(__file__)))
        self.repo = repo or os.environ.get("PYCPARSER_REPO", "/repo")
        self.cache = {}
        self.p = None
        self.pid = None
        self.nforks = 0

    def _start(self):
        env = dict(os.environ)
        env["PYTHONPATH"] = os.pathsep.join([self.repo, self.here])
        env["PYTHONHASHSEED"] = "0"
        env["PYTHONDONTWRITEBYTECODE"] = "1"
        self.p = subprocess.Popen([sys.executable, "-m", "vlib.pristine"], cwd=self.here, env=env, stdin=subprocess.PIPE, stdout=subprocess.PIPE)
        self.pid = os.getpid()

    def call(self, name, *args):
        key = (name, args)
        if key in self.cache:
            return self.cache[key]
        if self.p is None or self.pid != os.getpid() or self.p.poll() is not None:
            # (a forked pool worker must not share its parent's helper)
            self._start()
        try:
            _write(self.p.stdin, (name, args))
            kind, val = _read(self.p.stdout)
        except (EOFError, OSError) as e:
            raise PristineUnavailable(repr(e))
        if kind != "res":
            raise PristineUnavailable(val)
        self.nforks += 1
        if len(self.cache) < 20000:
            self.cache[key] = val
        return val

    def close(self):
        if self.p is not None and self.pid == os.getpid():
            try:
                self.p.stdin.close()
                self.p.wait(timeout=5)
            except Exception:  # noqa: BLE001
                self.p.kill()
        self.p = None


_shared = [None]


def shared():
    """one helper per process"""
    old = _shared[0]
    if old is None or old.pid not in (None, os.getpid()):
        _shared[0] = Pristine()
        if old is not None:
            _shared[0].cache = old.cache  # answers stay pristine whoever asked
    return _shared[0]


if __name__ == "__main__":
    serve()
